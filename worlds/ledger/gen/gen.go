package gen

import (
	"0chain.net/core/common"
	"0chain.net/core/config"

	"verif/sim"
	"verif/worlds/ledger"
)

// plan knobs applied to the node configuration (viper) before the chain is created
var viperKnobs = map[string]string{
	"max_block_cost": "viper:server_chain.block.max_block_cost",
	"transfer_cost":  "viper:server_chain.transaction.transfer_cost",
	"batch_size":     "viper:server_chain.block.validation.batch_size",
	"min_block_size": "viper:server_chain.block.min_block_size",
	"min_generators": "viper:server_chain.block.min_generators",
	"future_nonce":   "viper:server_chain.transaction.future_nonce",
	"proposal_wait":  "viper:server_chain.block.proposal.max_wait_time", // nanoseconds
}

func genPlan(seed uint64, tier string) *sim.Plan {
	root := sim.NewRNG(seed)
	sw := root.Child("swarm")
	miners := sw.Range(2, 4)
	p := &sim.Plan{Cfg: map[string]int64{
		"clients":  int64(sw.Range(2, 5)),
		"miners":   int64(miners),
		"sharders": int64(sw.Range(1, 2)),
		"fees":     1,
		"funding":  []int64{1e13, 3e10, 1e17}[sw.Pick([]int{6, 2, 1})],
		"ed25519":  0, // the miners' built-in transactions are signed with node (BLS) keys; see LevelNote
		"txn_timeout": []int64{600, 30}[sw.Pick([]int{3, 1})],
		// swarm: storage contract periods of the built-in transactions
		"sc_challenge_gap": int64(sw.Range(1, 3)),
		"sc_reward_period": int64(sw.Range(2, 7)),
	}}
	p.Cfg[viperKnobs["max_block_cost"]] = []int64{10000, 3000, 2900}[sw.Pick([]int{2, 3, 1})]
	p.Cfg[viperKnobs["transfer_cost"]] = []int64{10, 150, 400}[sw.Pick([]int{2, 2, 1})]
	p.Cfg[viperKnobs["batch_size"]] = []int64{1000, 1, 2, 3, 7}[sw.Pick([]int{2, 2, 2, 2, 1})]
	p.Cfg[viperKnobs["min_block_size"]] = []int64{1, 1, 3}[sw.Intn(3)]
	p.Cfg[viperKnobs["min_generators"]] = int64(miners) // every miner is a generator of every round
	p.Cfg[viperKnobs["future_nonce"]] = []int64{10, 3}[sw.Pick([]int{2, 1})]
	p.Cfg[viperKnobs["proposal_wait"]] = 180e6
	p.Cfg["viper:server_chain.block.max_byte_size"] = []int64{1638400, 700}[sw.Pick([]int{4, 1})]
	p.Cfg["viper:server_chain.smart_contract.setting_update_period"] = []int64{200, 5}[sw.Pick([]int{1, 1})]

	r := root.Child("plan")
	rounds := r.Range(3, 10)
	if tier == "thorough" {
		rounds = r.Range(4, 30)
	}
	for i := 0; i < rounds; i++ {
		if r.Bool(0.12) {
			// a peer with a fast clock wins a round: the next generator's clock is behind its previous block
			p.Steps = append(p.Steps, sim.Step{Op: "ahead", A: r.Intn(4), I: []int64{int64(r.Intn(6))}})
		}
		// pool activity before the round
		n := r.Pick([]int{2, 3, 4, 4, 3, 2, 1, 1}) // 0..7 submissions
		for k := 0; k < n; k++ {
			p.Steps = append(p.Steps, genPut(r))
		}
		switch r.Pick([]int{10, 2, 2, 2, 1}) {
		case 1:
			p.Steps = append(p.Steps, sim.Step{Op: "resub", I: []int64{int64(r.Intn(1000)), int64(r.Intn(2))}})
		case 2:
			p.Steps = append(p.Steps, sim.Step{Op: "flood", A: r.Intn(8), I: []int64{int64(r.Range(3, 25)), int64(r.Pick([]int{1, 0, 2}))}})
		case 3:
			p.Steps = append(p.Steps, sim.Step{Op: "clock", I: []int64{[]int64{1, 5, 28, 300, 650}[r.Pick([]int{4, 3, 2, 1, 1})]}})
		case 4:
			p.Steps = append(p.Steps, sim.Step{Op: "resub", I: []int64{int64(r.Intn(1000)), int64(r.Intn(2))}})
			p.Steps = append(p.Steps, sim.Step{Op: "resub", I: []int64{int64(r.Intn(1000)), int64(r.Intn(2))}})
		}
		rs := sim.Step{Op: "round", A: r.Intn(4), I: []int64{int64(r.Intn(3)), int64(r.Intn(64)), int64(r.Pick([]int{4, 4, 3, 2, 1, 1})), 0, 0, int64(r.Intn(3)), 0, 0}}
		if r.Bool(0.15) {
			rs.I[3] = int64(r.Range(1, 12)) // slow generation before the k-th pool entity
		}
		if r.Bool(0.12) {
			rs.I[4] = int64(r.Range(1, 4)) // pool store error
		}
		if r.Bool(0.15) {
			rs.I[7] = int64(r.Range(1, 3)) // a second generator builds a block for the same round
		}
		if r.Bool(0.05) {
			rs.I[6] = int64(r.Range(1, 4)) // round timeout / next round during the collection
		}
		p.Steps = append(p.Steps, rs)
		if r.Bool(0.45) {
			p.Steps = append(p.Steps, sim.Step{Op: "fin", I: []int64{int64(r.Pick([]int{3, 2, 1, 1})), int64(r.Intn(5)), int64(r.Pick([]int{3, 1, 1}))}})
		}
	}
	return p
}

func genPut(r *sim.RNG) sim.Step {
	kind := r.Pick([]int{8, 3, 5, 2, 1})
	return sim.Step{Op: "put", A: r.Intn(8), I: []int64{
		int64(kind),
		int64(r.Pick([]int{12, 2, 3, 1, 3, 1})), // nonce kind
		int64(r.Pick([]int{8, 3, 2, 2, 1})),     // fee kind
		int64(r.Pick([]int{2, 2, 6, 1, 1, 1})),  // value kind
		int64(r.Intn(600)),                      // target
		int64(r.Pick([]int{12, 2, 1, 1})),       // time kind
		int64(r.Intn(3)),                        // mode
		int64(r.Intn(5)),
	}}
}

var scenario = ledger.Scenario{
	Prop:   prop,
	Bubble: true,
	Setup: func(w *ledger.World, r *ledger.Runner) []ledger.Observer {
		g := newG(w, r)
		r.Ops["put"] = func(_ *ledger.Runner, st sim.Step) { g.opPut(st) }
		r.Ops["resub"] = func(_ *ledger.Runner, st sim.Step) { g.opResub(st) }
		r.Ops["flood"] = func(_ *ledger.Runner, st sim.Step) { g.opFlood(st) }
		r.Ops["round"] = func(_ *ledger.Runner, st sim.Step) { g.opRound(st) }
		r.Ops["ahead"] = func(_ *ledger.Runner, st sim.Step) { g.opAhead(st) }
		r.Ops["fin"] = func(_ *ledger.Runner, st sim.Step) { g.opFin(st) }
		return nil
	},
}

func exec(env *sim.Env, p *sim.Plan) *sim.Result {
	// contract configuration knobs are process globals read at genesis: set them from the plan
	ledger.Boot()
	// The root context is created by Boot outside any bubble and goroutines outside
	// the bubble select on it; its Done channel is made lazily by the first caller,
	// which must not be a goroutine inside a bubble (the miner derives contexts from it).
	_ = common.GetRootContext().Done()
	config.SmartContractConfig.Set("smart_contracts.storagesc.challenge_generation_gap", p.CfgInt("sc_challenge_gap", 3))
	config.SmartContractConfig.Set("smart_contracts.storagesc.block_reward.trigger_period", p.CfgInt("sc_reward_period", 30))
	return scenario.Exec(env, p)
}

func init() {
	sim.Register(&sim.Check{
		ID: prop, Title: "Blocks built by an honest generator pass honest verification", World: "ledger",
		Gen: genPlan, Exec: exec,
		Quick: sim.Budget{Runs: 320, WallS: 70}, Thorough: sim.Budget{Runs: 9000, WallS: 1200},
		LevelText: "seeded pool histories (3-10 rounds quick, 4-30 thorough) against the shipped miner code on two chain instances: transactions are admitted through the shipped chain.PutTransaction (or written straight to the pool store for contents an honest pool holds after the state moved on) and every round the shipped miner.Chain.GenerateRoundBlock (-> GenerateBlock -> generateBlock: txnIterHandlerFunc, txnProcessorHandlerFunc, checkForCurrent, buildInTxns, hashAndSignGeneratedBlock, UpdatePendingBlock) builds a block as miner g; the block handed to VerifyBlockSender is encoded with the shipped datastore codec (msgpack or JSON), decoded into a fresh entity (ComputeProperties: client ids from public keys) and given to the shipped miner.Chain.VerifyRoundBlock (-> VerifyBlock: Validate, VerifyBlockMagicBlockReference, ValidateTransactions in batch goroutines, cost check, ComputeState, verifySmartContracts, SignBlock) running as another miner on a second chain (own node DB, own state cache) holding the same previous block. Oracles from the statement, evaluated on the block as received: verification passes; root, change count, outputs and statuses equal the generator's, also when recomputed on a third chain from a copy stripped of outputs; no transaction twice; per-sender nonces consecutive from the previous state's nonce; total cost (shipped estimator) within max_block_cost; each built-in function at most once; every client transaction was submitted, unaltered, correctly signed, within the time tolerance of the block and pays at least the estimated minimum fee; over the history no hash in two adopted blocks; the shipped FinalizeBlock removes a finalized block's transactions from the pool",
		LevelNote: "pool contents: consecutive / used / gapped / far-future / duplicate / zero nonces, fees ample / exact / one below the minimum / zero / above the balance, values up to balance+1, creation dates now / about to expire / expired / ahead, sends, faucet pours, calls of every registered contract function, unknown functions, calls carrying the names of the built-in transactions, data transactions, byte-identical re-submissions (also of already included transactions), floods beyond the cost limit, senders include the miners' own wallets. Faults: pool store errors (MemStore.Fail on multiread / multidelete), slow collection (the proposal deadline expires inside IterateCollection on the simulated clock), round timeout during the collection, verifier with empty or warm state cache, verifier clock later by 1 s .. 1 h, verifier or generator with a lagging latest finalized block, cancelled verifier context, min_block_size above the pool size (the insufficient-transactions retry loop runs on the simulated clock). Swarm: 2-4 miners (each a generator of every round), validation batch size 1/2/3/7/1000 (selftest at GOMAXPROCS 1/4/16: identical event logs), block cost limit 2900-10000 with transfer cost 10-400, byte limit, future-nonce window 3/10, time tolerance 30/600 s, storage-contract periods so that generate_challenge / blobber_block_rewards / commit_settings_changes built-ins occur. BYPASSED, sim-owned instead: HTTP/n2n transport and the verify-block message handler chain (VerifyBlockSender captured, VerifyRoundBlock called directly), VRF/DKG (round seed set with Chain.SetRandomSeed), notarization (a block is adopted after one successful verification, no tickets), finalization workers (the sim calls SaveChanges, SetLatestFinalizedBlock and the shipped miner FinalizeBlock), redis (in-memory datastore.Store; the collection score follows memorystore.writeAux: fee, else negated write time), the redis-only transaction CleanupWorker, client discovery (SaveClients), view change / magic block changes. Only the bls0chain client scheme is explored (built-in transactions are signed with the miners' BLS node keys). The chain's validated-transaction cache has no writer in the tree and stays empty (with entries for a whole batch, BLS0ChainAggregateSignatureScheme.Verify dereferences nil and kills the process - latent, unreachable). A generation that returns an error is not a violation (no block); liveness is not claimed",
		Technique:  "deterministic simulation: seeded pool histories with store, clock, cache and slow-generation faults; real generator against real verifier on a second chain instance; statement oracles on the block as received",
		DesignRef:  "6/C45",
		Regime:     "single-threaded event loop inside a testing/synctest bubble (generator and verifier take turns; inner ValidateTransactions batch goroutines run to quiescence)",
		Components: sim.Components{
			Real: append([]string{"miner.Chain (GenerateRoundBlock, GenerateBlock/generateBlock, buildInTxns, VerifyRoundBlock, VerifyBlock, ValidateTransactions, FinalizeBlock) over the process-global miner singleton, re-pointed between generator and verifier", "chaincore/chain PutTransaction admission, EstimateTransactionCost(Fee), ComputeState", "datastore msgpack/JSON codecs of block and transaction entities", "core/encryption BLS aggregate verification"}, ledger.W1Components.Real...),
			Sim:  append([]string{"transaction pool contents and arrival order", "round seeds, generator choice, notarization and finalization decisions", "pool store faults, slow collection, clock"}, ledger.W1Components.Sim...),
			Stub: ledger.W1Components.Stub,
		},
		Assumptions: []string{"a block counts as built by an honest generator only if GenerateRoundBlock returned it without error", "client-side: transactions are well-formed (hash, signature, hexadecimal recipient other than the sender), as the admission handler enforces"},
	})
}
