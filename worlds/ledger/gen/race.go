package gen

import (
	"fmt"

	"0chain.net/chaincore/transaction"

	"verif/sim"
	"verif/worlds/ledger"
)

// RaceReport is what one RaceWorkload run did (the oracle is the race detector
// of a `-race` build: its reports go to stderr / GORACE log_path).
type RaceReport struct {
	Blocks      int // blocks built by the real generator
	Validations int // ValidateTransactions calls
	Failed      int // of which returned an error (a batch cancelled the others)
	Batches     int // validation goroutines of the largest block
}

// RaceWorkload is the C44 sub-target "parallel transaction-batch validation"
// (DESIGN 3.4 / 11: free-running under the race detector, seeded workload, not
// schedule-controlled). It builds a ledger world OUTSIDE any synctest bubble,
// lets the real generator build blocks of many client transactions with a
// small validation batch size (several batch goroutines per block), ships each
// block in its wire form and calls the real miner.Chain.ValidateTransactions on
// the verifier chain: once untouched, then with exactly one failing
// transaction per batch (missing output hash, creation date outside the
// tolerance, wrong hash, forged signature), so that the batch goroutines write
// the flags they share (`cancel`, `roundMismatch` in
// miner/protocol_block.go ValidateTransactions) while the others read them.
//
// It is meant to be called from a binary built with `go test -race`
// (verif/worlds/ledger/gen/racecmd); C44 itself is registered by the threads world.
func RaceWorkload(seed uint64) (*RaceReport, error) {
	rng := sim.NewRNG(seed).Child("race")
	batch := int64(rng.Range(1, 3))
	p := &sim.Plan{Prop: "C44", Seed: seed, Cfg: map[string]int64{
		"clients": 4, "miners": 3, "sharders": 1, "fees": 1, "funding": 1e13, "ed25519": 0, "txn_timeout": 600,
		viperKnobs["max_block_cost"]: 10000, viperKnobs["transfer_cost"]: 10, viperKnobs["batch_size"]: batch,
		viperKnobs["min_block_size"]: 1, viperKnobs["min_generators"]: 3, viperKnobs["future_nonce"]: 100,
		viperKnobs["proposal_wait"]: 2e9, "viper:server_chain.block.max_byte_size": 1638400,
		"viper:server_chain.smart_contract.setting_update_period": 200,
	}}
	tr := sim.NewTrace()
	w := ledger.NewWorld(seed, ledger.CfgFromPlan(p), tr)
	defer w.Close()
	r := ledger.NewRunner(w)
	r.Plan = p
	g := newG(w, r)
	rep := &RaceReport{}
	rounds := rng.Range(2, 4)
	for rn := int64(1); rn <= int64(rounds); rn++ {
		for c := 0; c < 3; c++ {
			g.opFlood(sim.Step{Op: "flood", A: c, I: []int64{int64(rng.Range(3, 7)), 2}})
		}
		o := roundOpts{gen: int(rn) % 3, twin: -1}
		o.ver = (o.gen + 1) % 3
		c := g.generate(o, rn, o.gen)
		if c == nil {
			return rep, fmt.Errorf("round %d: no block", rn)
		}
		rep.Blocks++
		n := len(c.nb.Txns)
		nb := (n + int(batch) - 1) / int(batch)
		if nb > rep.Batches {
			rep.Batches = nb
		}
		vmc := g.become(g.Ver.C, o.ver)
		g.roundOn(vmc, rn)
		vmc.SetCurrentRound(rn)
		for kind := 0; kind < 5; kind++ {
			cp, err := wireBlock(c.sentB, kind%2 == 1)
			if err != nil {
				return rep, err
			}
			if kind > 0 {
				// one failing transaction per batch, at a seeded position
				for start := 0; start < n; start += int(batch) {
					end := start + int(batch)
					if end > n {
						end = n
					}
					t := cp.Txns[start+rng.Intn(end-start)]
					tamper(t, kind)
				}
			}
			err = vmc.ValidateTransactions(w.Ctx, cp)
			rep.Validations++
			if err != nil {
				rep.Failed++
			} else if kind > 0 {
				return rep, fmt.Errorf("round %d: tampered block (kind %d) passed ValidateTransactions", rn, kind)
			}
			if kind == 0 && err != nil {
				return rep, fmt.Errorf("round %d: honest block fails ValidateTransactions: %v", rn, err)
			}
		}
		g.verify(o, rn, c)
		if !c.ok {
			return rep, fmt.Errorf("round %d: block not verified: %v", rn, tr.Viol)
		}
		g.adopt(o, rn, c)
	}
	return rep, nil
}

func tamper(t *transaction.Transaction, kind int) {
	switch kind {
	case 1:
		t.OutputHash = "" // "no output hash" -> cancel = true
	case 2:
		t.CreationDate -= 100000 // outside the tolerance -> ValidateWrtTimeForBlock fails
	case 3:
		t.Value++ // hash mismatch
	case 4:
		// a well-formed signature of another message: fails in the aggregate check only
		t.TransactionData += " "
		t.Hash = t.ComputeHash()
	}
}
