package gen

import (
	"fmt"
	"strings"

	"0chain.net/chaincore/transaction"
	"0chain.net/core/common"

	"verif/sim"
	"verif/worlds/ledger"
)

// RaceReport is what one RaceWorkload run did (the oracle is the race detector
// of a `-race` build: its reports go to stderr / GORACE log_path).
type RaceReport struct {
	Blocks      int // blocks built by the real generator
	Validations int // ValidateTransactions calls
	Failed      int // of which returned an error (a batch cancelled the others)
	Batches     int // validation goroutines of the largest block
	Txns        int // transactions of the largest block
}

// RaceWorkload is the C44 sub-target "parallel transaction-batch validation"
// (DESIGN 3.4 / 11: free-running under the race detector, seeded workload, not
// schedule-controlled). It builds a ledger world OUTSIDE any synctest bubble,
// lets the real generator build blocks of many client transactions with a
// small validation batch size (several batch goroutines per block), ships each
// block in its wire form and calls the real miner.Chain.ValidateTransactions on
// the verifier chain: once untouched, then with exactly one failing
// transaction per batch (missing output hash, creation date outside the
// tolerance, wrong hash, forged signature), so that the batch goroutines write
// the flags they share (`cancel`, `roundMismatch` in
// miner/protocol_block.go ValidateTransactions) while the others read them.
//
// It is meant to be called from a binary built with `go test -race`
// (verif/worlds/ledger/gen/racecmd); C44 itself is registered by the threads world.
func RaceWorkload(seed uint64) (*RaceReport, error) {
	rng := sim.NewRNG(seed).Child("race")
	batch := int64(rng.Range(1, 3))
	p := &sim.Plan{Prop: "C44", Seed: seed, Cfg: map[string]int64{
		"clients": 4, "miners": 3, "sharders": 1, "fees": 1, "funding": 1e13, "ed25519": 0, "txn_timeout": 600,
		viperKnobs["max_block_cost"]: 10000, viperKnobs["transfer_cost"]: 10, viperKnobs["batch_size"]: batch,
		viperKnobs["min_block_size"]: 1, viperKnobs["min_generators"]: 3, viperKnobs["future_nonce"]: 100,
		viperKnobs["proposal_wait"]: 2e9, "viper:server_chain.block.max_byte_size": 1638400,
		"viper:server_chain.smart_contract.setting_update_period": 200,
	}}
	tr := sim.NewTrace()
	w := ledger.NewWorld(seed, ledger.CfgFromPlan(p), tr)
	defer w.Close()
	r := ledger.NewRunner(w)
	r.Plan = p
	g := newG(w, r)
	w.Now = common.Now() // no bubble: the node reads the real clock
	rep := &RaceReport{}
	rounds := rng.Range(2, 4)
	for rn := int64(1); rn <= int64(rounds); rn++ {
		for c := 0; c < 3; c++ {
			g.opFlood(sim.Step{Op: "flood", A: c, I: []int64{int64(rng.Range(3, 7)), 2}})
		}
		// one identity only: outside a bubble there is no quiescence point at which the process
		// globals could be re-pointed without racing with the node's own goroutines
		o := roundOpts{gen: 0, ver: 1, twin: -1}
		c := g.generate(o, rn, o.gen)
		if c == nil {
			return rep, fmt.Errorf("round %d: no block", rn)
		}
		rep.Blocks++
		n := len(c.nb.Txns)
		nb := (n + int(batch) - 1) / int(batch)
		if nb > rep.Batches {
			rep.Batches = nb
		}
		vmc := g.become(w.C, o.gen)
		if n > rep.Txns {
			rep.Txns = n
		}
		for kind := 0; kind < 5; kind++ {
			cp, err := wireBlock(c.sentB, kind%2 == 1)
			if err != nil {
				return rep, err
			}
			if kind > 0 {
				// one failing transaction per batch, at a seeded position
				for start := 0; start < n; start += int(batch) {
					end := start + int(batch)
					if end > n {
						end = n
					}
					t := cp.Txns[start+rng.Intn(end-start)]
					tamper(t, kind)
				}
			}
			err = vmc.ValidateTransactions(w.Ctx, cp)
			rep.Validations++
			if err != nil {
				rep.Failed++
			} else if kind > 0 {
				return rep, fmt.Errorf("round %d: tampered block (kind %d) passed ValidateTransactions", rn, kind)
			}
			if kind == 0 && err != nil {
				return rep, fmt.Errorf("round %d: honest block fails ValidateTransactions: %v", rn, err)
			}
		}
		if c.blockViol {
			return rep, fmt.Errorf("round %d: block violates C45: %v", rn, tr.Viol)
		}
		vmc.AddNotarizedBlock(g.roundOn(vmc, rn), c.b)
		g.head = c.b
		w.Head = c.b
	}
	return rep, nil
}

func tamper(t *transaction.Transaction, kind int) {
	switch kind {
	case 1:
		t.OutputHash = "" // "no output hash" -> cancel = true
	case 2:
		t.CreationDate -= 100000 // outside the tolerance -> ValidateWrtTimeForBlock fails
	case 3:
		t.Value++ // hash mismatch
	case 4:
		// a well-formed signature of another message: fails in the aggregate check only
		t.TransactionData += " "
		t.Hash = t.ComputeHash()
	}
}

// RacePair is one report of the race detector reduced to the two accesses.
type RacePair struct {
	A, B string // "Read at .../protocol_block.go:523", "Previous write at .../protocol_block.go:532"
}

// RaceBuildArgv is the command that builds the -race driver of RaceWorkload
// (run it in /verif with the usual GOFLAGS/GOPROXY/GOWORK environment).
func RaceBuildArgv(goBin, out string) []string {
	return []string{goBin, "test", "-race", "-c", "-tags", "verif", "-o", out, "./worlds/ledger/gen/racecmd"}
}

// RaceRunArgv runs n seeds starting at base; set GORACE=halt_on_error=0 (and
// GEN_RACE_BASE / GEN_RACE_SEEDS, returned as env) and read the reports from stderr.
func RaceRunArgv(bin string, base uint64, n int) (argv []string, env []string) {
	return []string{bin, "-test.run", "TestValidateTransactionsRace", "-test.v"},
		[]string{fmt.Sprintf("GEN_RACE_BASE=%d", base), fmt.Sprintf("GEN_RACE_SEEDS=%d", n), "GORACE=halt_on_error=0", "GODEBUG=asynctimerchan=0"}
}

// ParseRaceReports extracts, from the race detector's output, the first source
// location of each of the two conflicting accesses of every report.
func ParseRaceReports(out string) []RacePair {
	var res []RacePair
	lines := strings.Split(out, "\n")
	for i := 0; i < len(lines); i++ {
		if !strings.HasPrefix(lines[i], "WARNING: DATA RACE") {
			continue
		}
		var acc []string
		for j := i + 1; j < len(lines) && !strings.HasPrefix(lines[j], "=================="); j++ {
			l := lines[j]
			if strings.HasPrefix(l, "Read at") || strings.HasPrefix(l, "Write at") || strings.HasPrefix(l, "Previous read at") || strings.HasPrefix(l, "Previous write at") {
				kind := l[:strings.Index(l, " at ")]
				// the location is on the second line after the header: "      /path/file.go:NN +0x.."
				if j+2 < len(lines) {
					loc := strings.TrimSpace(lines[j+2])
					if k := strings.Index(loc, " "); k > 0 {
						loc = loc[:k]
					}
					acc = append(acc, kind+" "+loc)
				}
			}
		}
		if len(acc) >= 2 {
			res = append(res, RacePair{A: acc[0], B: acc[1]})
		}
	}
	return res
}
