package gen

import (
	"bytes"
	"context"
	"errors"
	"fmt"
	"strings"
	"time"

	"0chain.net/chaincore/block"
	"0chain.net/chaincore/chain"
	"0chain.net/chaincore/transaction"
	"0chain.net/core/common"
	"0chain.net/core/datastore"
	"0chain.net/miner"
	"github.com/0chain/common/core/currency"
	"github.com/0chain/common/core/util"

	"verif/sim"
	"verif/worlds/ledger"
)

// symbolic kinds of a "put" step
const (
	kSend = iota
	kPour
	kCall
	kBuiltinName
	kData
	kKinds
)

const (
	nNext = iota // next consecutive nonce of the sender's queue
	nPast        // a nonce the state already used
	nGap         // leaves a gap (future transaction); a later nNext fills it
	nFar         // beyond the future-nonce window
	nDup         // same nonce as the last queued one, different payload
	nZero
	nKinds
)

const (
	fAmple = iota // the configured maximum fee (always enough)
	fExact        // exactly the estimated minimum
	fBelow        // estimated minimum - 1
	fZero
	fHuge // more than the balance
	fKinds
)

const (
	vZero = iota
	vOne
	vSmall
	vHalf
	vBalance
	vBalancePlus1
	vKinds
)

const (
	tNow = iota
	tAlmostExpired  // now - tolerance + 2: expires two seconds from now
	tExpired        // now - tolerance - 1
	tAhead          // now + tolerance - 1
	tKinds
)

var builtinNames = []string{"payFees", "generate_challenge", "blobber_block_rewards", "commit_settings_changes"}

func isBuiltinName(fn string) bool {
	for _, n := range builtinNames {
		if n == fn {
			return true
		}
	}
	return false
}

// sender resolves an actor index to an account that can sign.
func (g *G) sender(i int) *ledger.Client {
	w := g.W
	n := len(w.Clients) + len(w.Miners)
	if i < 0 {
		i = -i
	}
	i %= n
	if i < len(w.Clients) {
		return w.Clients[i]
	}
	return w.Miners[i-len(w.Clients)].Client
}

func (g *G) tolerance() int64 { return transaction.TXN_TIME_TOLERANCE }

// ---- put -----------------------------------------------------------------------------------------

func (g *G) opPut(st sim.Step) {
	w := g.W
	cl := g.sender(st.A)
	kind := int(st.Int(0, 0)) % kKinds
	if kind == kBuiltinName {
		// a miner's own wallet could produce a transaction byte-identical to the
		// built-in one its node creates; only ordinary clients send these
		i := st.A
		if i < 0 {
			i = -i
		}
		cl = w.Clients[i%len(w.Clients)]
	}
	bal, stNonce, _ := ledger.Balance(g.head.ClientState, cl.ID)

	spec := ledger.TxnSpec{From: cl.ID}
	target := int(st.Int(4, 0))
	switch kind {
	case kSend:
		to := g.sender(st.A + 1 + target%7)
		if to.ID == cl.ID {
			to = g.sender(st.A + 1)
		}
		spec.To, spec.Type = to.ID, transaction.TxnTypeSend
	case kPour:
		spec.To, spec.Type, spec.Name, spec.Raw = ledger.AddrFaucet, transaction.TxnTypeSmartContract, "pour", "{}"
	case kCall:
		addrs := ledger.ContractAddrs()
		addr := addrs[target%len(addrs)]
		fs := g.R.Funcs[addr]
		fn := "unknown_function"
		if len(fs) > 0 && (target/len(addrs))%9 != 8 {
			fn = fs[(target/len(addrs))%len(fs)]
		}
		spec.To, spec.Type, spec.Name, spec.Raw = addr, transaction.TxnTypeSmartContract, fn, "{}"
	case kBuiltinName:
		fn := builtinNames[target%len(builtinNames)]
		spec.To = ledger.AddrStorage
		if fn == "payFees" {
			spec.To = ledger.AddrMiner
		}
		spec.Type, spec.Name, spec.Raw = transaction.TxnTypeSmartContract, fn, fmt.Sprintf(`{"round":%d}`, g.head.Round+1)
	case kData:
		to := g.sender(st.A + 1 + target%7)
		if to.ID == cl.ID {
			to = g.sender(st.A + 1)
		}
		spec.To, spec.Type, spec.Raw = to.ID, transaction.TxnTypeData, fmt.Sprintf("data-%d", len(g.subs))
	}

	// value
	switch int(st.Int(3, 0)) % vKinds {
	case vZero:
		spec.Value = 0
	case vOne:
		spec.Value = 1
	case vSmall:
		spec.Value = 1000 + int64(len(g.subs)) // distinct payloads for duplicate nonces
	case vHalf:
		spec.Value = int64(bal) / 2
	case vBalance:
		spec.Value = int64(bal)
	case vBalancePlus1:
		spec.Value = int64(bal) + 1
	}
	if kind == kCall || kind == kBuiltinName || kind == kData {
		if spec.Value > 1000000 {
			spec.Value = 0
		}
	}

	// nonce
	class := "next"
	last := g.lastQueued[cl.ID]
	if last < stNonce {
		last = stNonce
	}
	switch int(st.Int(1, 0)) % nKinds {
	case nNext:
		spec.Nonce = last + 1
	case nPast:
		spec.Nonce, class = stNonce, "past"
	case nGap:
		spec.Nonce, class = last+2+st.Int(7, 0)%3, "gap"
	case nFar:
		spec.Nonce, class = stNonce+int64(w.C.ChainConfig.TxnFutureNonce())+2+st.Int(7, 0)%5, "far"
	case nDup:
		spec.Nonce, class = last, "dup"
		if last == stNonce {
			class = "past"
		}
	case nZero:
		spec.Nonce, class = 0, "zero"
	}

	// time
	switch int(st.Int(5, 0)) % tKinds {
	case tNow:
		spec.Time = w.Now
	case tAlmostExpired:
		spec.Time = w.Now - common.Timestamp(g.tolerance()) + 2
		class += "+old"
	case tExpired:
		spec.Time = w.Now - common.Timestamp(g.tolerance()) - 1
		class += "+expired"
	case tAhead:
		spec.Time = w.Now + common.Timestamp(g.tolerance()) - 1
		class += "+ahead"
	}

	t := w.MakeTxn(spec)
	// fee (not covered by the hash)
	fk := int(st.Int(2, 0)) % fKinds
	est := g.minFee(t)
	switch fk {
	case fAmple:
		t.Fee = w.C.ChainConfig.MaxTxnFee()
	case fExact:
		t.Fee = est
	case fBelow:
		if est > 0 {
			t.Fee = est - 1
			class += "+lowfee"
		}
	case fZero:
		t.Fee = 0
		if est > 0 {
			class += "+lowfee"
		}
	case fHuge:
		t.Fee = bal + 1
		class += "+hugefee"
	}
	w.SignTxn(t, cl)
	mode := "ingest"
	if st.Int(6, 0)%3 == 2 {
		mode = "direct"
	}
	p := &ptxn{T: t, Cl: cl, Class: class, Mode: mode}
	g.submit(p)
	if p.Accepted && int(st.Int(1, 0))%nKinds == nNext {
		g.lastQueued[cl.ID] = spec.Nonce
	}
}

// minFee is the fee the shipped estimator asks for this transaction on the
// generator's latest finalized block (0 when it cannot be estimated).
func (g *G) minFee(t *transaction.Transaction) currency.Coin {
	lfb := g.W.C.GetLatestFinalizedBlock()
	_, f, err := g.W.C.EstimateTransactionCostFee(g.W.Ctx, lfb, t)
	if err != nil {
		return 0
	}
	if m := g.W.C.ChainConfig.MinTxnFee(); m > f {
		f = m
	}
	return f
}

func (g *G) submit(p *ptxn) {
	var err error
	if p.Mode == "ingest" {
		err = g.ingest(p.T)
	} else {
		err = g.direct(p.T)
	}
	g.quiesce()
	p.Accepted = err == nil
	g.subs = append(g.subs, p)
	if _, ok := g.byHash[p.T.Hash]; !ok {
		g.byHash[p.T.Hash] = p
	}
	fn := ""
	if p.T.SmartContractData != nil {
		fn = p.T.FunctionName
	}
	out := "pooled"
	if err != nil {
		out = "rejected:" + errCode(err)
		g.Tr.Probe("ingest_rejected:" + errCode(err))
	} else {
		g.Tr.Probe("pooled:" + baseClass(p.Class))
		for _, f := range strings.Split(p.Class, "+")[1:] {
			g.Tr.Probe("pooled:+" + f)
		}
	}
	g.Tr.Event("put %s type=%d fn=%s nonce=%d fee=%d class=%s -> %s", p.Mode, p.T.TransactionType, fn, p.T.Nonce, p.T.Fee, p.Class, out)
	g.Tr.Outcome(fmt.Sprintf("put/%s/%s", p.Mode, strings.SplitN(out, ":", 2)[0]))
}

// opResub submits a byte-identical copy of an earlier submission (duplicate
// delivery; re-inclusion attempt when it was already included in a block).
func (g *G) opResub(st sim.Step) {
	if len(g.subs) == 0 {
		return
	}
	old := g.subs[int(st.Int(0, 0))%len(g.subs)]
	cp := old.T.Clone()
	cp.Status, cp.TransactionOutput, cp.OutputHash = 0, "", ""
	cp.ClientID, cp.PublicKey, cp.Signature = old.T.ClientID, old.T.PublicKey, old.T.Signature
	class := "identical-duplicate"
	if old.Included > 0 {
		class = "reinclusion"
		g.Tr.Fault("reinclusion_attempt")
	} else {
		g.Tr.Fault("duplicate_delivery")
	}
	mode := "ingest"
	if st.Int(1, 0)%2 == 1 {
		mode = "direct"
	}
	g.submit(&ptxn{T: cp, Cl: old.Cl, Class: class, Mode: mode})
}

// opFlood queues n consecutive valid sends of one client.
func (g *G) opFlood(st sim.Step) {
	n := int(st.Int(0, 5))
	for i := 0; i < n; i++ {
		g.opPut(sim.Step{Op: "put", A: st.A, I: []int64{kSend, nNext, fAmple, vSmall, int64(i), tNow, st.Int(1, 0)}})
	}
}

// ---- round ---------------------------------------------------------------------------------------

var skews = []time.Duration{0, 0, time.Second, 5 * time.Second, 90 * time.Second, time.Hour}

type roundOpts struct {
	gen, ver   int
	twin       int // second generator of the same round (-1 = none)
	cold       bool
	skew       time.Duration
	jsonCodec  bool
	slowAt     int
	slowFor    time.Duration
	failOp     string
	failN      int
	verDeadline bool // verifier's context expires before it starts
	roundFault  int  // 1: the round timeout counter moves during the collection
}

var failOps = []string{"multiread", "multidelete"}

func (g *G) opRound(st sim.Step) {
	nm := len(g.W.Miners)
	o := roundOpts{gen: st.A % nm, twin: -1}
	o.ver = (o.gen + 1 + int(st.Int(0, 0))%(nm-1)) % nm
	if k := st.Int(7, 0); k > 0 && nm >= 3 {
		o.twin = (o.gen + int(k)) % nm
	}
	fl := st.Int(1, 0)
	o.cold = fl&1 != 0
	o.jsonCodec = fl&4 != 0
	o.verDeadline = fl&8 != 0 && fl&16 != 0 && fl&32 != 0
	o.skew = skews[int(st.Int(2, 0))%len(skews)]
	if k := st.Int(3, 0); k > 0 {
		o.slowAt, o.slowFor = int(k), 250*time.Millisecond
	}
	if k := st.Int(4, 0); k > 0 {
		// every store operation of the chosen kind fails during this generation (failing only
		// the first n would depend on the order in which the generator's goroutines reach the store)
		o.failOp, o.failN = failOps[int(k)%len(failOps)], 1 << 20
	}
	if k := st.Int(6, 0); k > 0 {
		o.roundFault = 1
		if o.slowAt == 0 {
			o.slowAt = 1 + int(k)%5
		}
		o.slowFor = 0
	}
	g.round(o)
}

func errCode(err error) string {
	if err == nil {
		return ""
	}
	var ce *common.Error
	if errors.As(err, &ce) && ce.Code != "" {
		return strings.TrimSuffix(strings.ReplaceAll(ce.Code, " ", "_"), ",")
	}
	s := err.Error()
	// stable class of a free-text error: letters of the first words only
	var b strings.Builder
	words := 0
	for _, r := range s {
		switch {
		case r >= 'a' && r <= 'z' || r >= 'A' && r <= 'Z':
			b.WriteRune(r)
		case r == ' ' || r == '_' || r == '-':
			if b.Len() > 0 && !strings.HasSuffix(b.String(), "_") {
				b.WriteByte('_')
				words++
			}
		default:
			if b.Len() > 0 {
				words = 99
			}
		}
		if words >= 6 {
			break
		}
	}
	return strings.Trim(b.String(), "_")
}

func (g *G) violate(oracle, sig, detail string) {
	g.Tr.Violate(&sim.Violation{Prop: prop, Oracle: oracle, Sig: prop + "/" + sig, Detail: detail})
}

// cand is one generated block on its way through the round.
type cand struct {
	gen       int
	b, sentB  *block.Block // generator's object / the object handed to the network
	nb        *block.Block // verifier's decoded copy
	offenders []string
	blockViol bool
	ok        bool // verified and acceptable
}

func (g *G) round(o roundOpts) {
	rn := g.head.Round + 1
	c1 := g.generate(o, rn, o.gen)
	var c2 *cand
	if o.twin >= 0 && o.twin != o.gen && o.twin != o.ver {
		// a second generator of the same round builds its own block from the same pool
		g.Tr.Fault("second_generator_same_round")
		o2 := o
		o2.slowAt, o2.failN, o2.roundFault = 0, 0, 0
		c2 = g.generate(o2, rn, o.twin)
	}
	first := true
	for _, c := range []*cand{c1, c2} {
		if c == nil {
			continue
		}
		ov := o
		if !first {
			ov.skew, ov.cold, ov.verDeadline = 0, false, false
		}
		first = false
		g.verify(ov, rn, c)
	}
	// the sim's "consensus": the first acceptable block of the round is notarized
	for _, c := range []*cand{c1, c2} {
		if c != nil && c.ok {
			g.adopt(o, rn, c)
			break
		}
	}
}

// generate runs the shipped generator as miner gen and applies the statement's
// block oracles to the block as it would be received.
func (g *G) generate(o roundOpts, rn int64, gen int) *cand {
	w := g.W
	ctx := w.Ctx
	mc := g.become(w.C, gen)
	mr := g.roundOn(mc, rn)
	mc.SetCurrentRound(rn)
	w.Reg.BeginTxn(nil)
	g.mu.Lock()
	g.sent = nil
	g.mu.Unlock()
	g.slowAt, g.slowFor, g.accessCnt, g.roundFault = o.slowAt, o.slowFor, 0, o.roundFault
	g.failOp, g.failLeft = o.failOp, o.failN
	keysBefore := g.poolKeys()
	poolBefore := len(keysBefore)
	g.inGen = true
	b, err := mc.GenerateRoundBlock(ctx, mr)
	// the generator's clean-up goroutines (deleteTxns) belong to the generation: let them
	// finish before the store fault is disarmed, whatever the Go scheduler does
	g.quiesce()
	g.inGen = false
	g.failLeft, g.slowAt = 0, 0
	g.poolDiff(keysBefore)
	if err != nil || b == nil {
		g.genErrs++
		g.Tr.Event("round %d gen=%d pool=%d: no block: %s", rn, gen, poolBefore, errCode(err))
		g.Tr.Probe("gen_no_block:" + errCode(err))
		g.Tr.Outcome("round/no-block")
		return nil
	}
	nClient, nBuiltin := 0, 0
	for _, t := range b.Txns {
		if isBuiltinName(fnOf(t)) && t.PublicKey == w.Miners[gen].PK {
			nBuiltin++
		} else {
			nClient++
		}
	}
	g.Tr.Event("round %d gen=%d pool=%d: block txns=%d client=%d builtin=%d root=%x changes=%d", rn, gen, poolBefore, len(b.Txns), nClient, nBuiltin, short(b.ClientStateHash), b.StateChangesCount)
	g.Tr.State(fmt.Sprintf("%x", b.ClientStateHash))
	if nClient == 0 {
		g.Tr.Probe("block_with_only_builtins")
	}
	if len(b.Txns) == 0 {
		g.Tr.Probe("empty_block")
	}

	// the block as it was handed to the network
	c := &cand{gen: gen, b: b}
	for try := 0; try < 3000; try++ {
		g.mu.Lock()
		for _, e := range g.sent {
			if sb, ok := e.(*block.Block); ok && sb.Hash == b.Hash {
				c.sentB = sb
			}
		}
		g.mu.Unlock()
		if c.sentB != nil || w.InBubble {
			break
		}
		time.Sleep(time.Millisecond) // outside a bubble (race workload) the send goroutine runs on its own
	}
	if c.sentB == nil {
		g.violate("generator", "block-not-sent", fmt.Sprintf("round %d: GenerateRoundBlock returned block %s but did not hand it to VerifyBlockSender", rn, b.Hash))
		return nil
	}
	nb, werr := wireBlock(c.sentB, o.jsonCodec)
	if werr != nil {
		g.violate("wire", "block-does-not-decode/"+errCode(werr), fmt.Sprintf("round %d: the generated block does not decode on the receiving side: %v", rn, werr))
		return nil
	}
	c.nb = nb
	nv := len(g.Tr.Viol)
	c.offenders = g.checkBlock(gen, b, nb)
	c.blockViol = len(g.Tr.Viol) > nv
	return c
}

// verify runs the shipped verifier as miner o.ver on the second chain.
func (g *G) verify(o roundOpts, rn int64, c *cand) {
	w := g.W
	ctx := w.Ctx
	b, nb := c.b, c.nb
	vmc := g.become(g.Ver.C, o.ver)
	vr := g.roundOn(vmc, rn)
	vmc.SetCurrentRound(rn)
	if o.skew > 0 && w.InBubble {
		w.Advance(int64(o.skew / time.Second))
		g.Tr.Fault("verifier_clock_skew")
	}
	if o.cold {
		g.Ver.C.SetupStateCache()
		g.Tr.Fault("verifier_cold_state_cache")
	}
	vctx := ctx
	if o.verDeadline {
		c2, cancel := context.WithCancel(ctx)
		cancel()
		vctx = c2
		g.Tr.Fault("verifier_context_cancelled")
	}
	bvt, verr := vmc.VerifyRoundBlock(vctx, vr, nb)
	g.quiesce()
	if verr != nil {
		g.Tr.Event("round %d verify gen=%d ver=%d: FAILED %s", rn, c.gen, o.ver, errCode(verr))
		g.Tr.Outcome("round/verify-failed")
		switch {
		case o.verDeadline:
			g.verFaultErrs++
			g.Tr.Probe("verify_failed_under_fault")
		case c.blockViol:
			// consequence of what the block oracles already reported
			g.Tr.Probe("verify_failed_after_block_violation:" + errCode(verr))
		default:
			g.violate("verifier", "verify-failed/"+errCode(verr), fmt.Sprintf("round %d: block %s built by honest generator %d from the pool is rejected by honest verifier %d holding the same previous state: %v", rn, b.Hash, c.gen, o.ver, verr))
		}
		g.dropOffenders(b, c.offenders)
		return
	}
	if bvt == nil || bvt.BlockID != nb.Hash {
		g.violate("verifier", "no-ticket", fmt.Sprintf("round %d: verification returned no error and no ticket for the block", rn))
		return
	}
	g.Tr.Probe("verified")
	g.Tr.Outcome("round/verified")

	// verifier's own recomputation
	vroot := []byte(nil)
	vchanges := -1
	if nb.ClientState != nil {
		vroot = nb.ClientState.GetRoot()
		vchanges = nb.ClientState.GetChangeCount()
	}
	g.Tr.Event("round %d verify gen=%d ver=%d: ok root=%x changes=%d", rn, c.gen, o.ver, short(vroot), vchanges)
	if !bytes.Equal(vroot, b.ClientStateHash) {
		g.violate("recompute", "root-differs", fmt.Sprintf("round %d: generator root %x, verifier recomputed %x", rn, b.ClientStateHash, vroot))
	}
	if vchanges != b.StateChangesCount {
		g.violate("recompute", "change-count-differs", fmt.Sprintf("round %d: generator counted %d state changes, verifier %d", rn, b.StateChangesCount, vchanges))
	}
	for i, t := range nb.Txns {
		gt := b.Txns[i]
		if t.TransactionOutput != gt.TransactionOutput || t.Status != gt.Status {
			g.violate("recompute", "output-differs/"+fnOrType(gt), fmt.Sprintf("round %d txn %d: generator status=%d output=%.160q, verifier status=%d output=%.160q", rn, i, gt.Status, gt.TransactionOutput, t.Status, t.TransactionOutput))
			break
		}
	}
	// independent recomputation from a copy that carries no outputs at all
	g.recompute(o, b, c.sentB)

	if c.blockViol {
		// verification passed although the block breaks the statement: do not adopt it
		g.Tr.Probe("verified_despite_block_violation")
		g.dropOffenders(b, c.offenders)
		return
	}
	c.ok = true
}

// adopt declares the block notarized on both nodes and makes it the head.
func (g *G) adopt(o roundOpts, rn int64, c *cand) {
	w := g.W
	b, nb := c.b, c.nb
	vmc := g.become(g.Ver.C, o.ver)
	vmc.AddNotarizedBlock(g.roundOn(vmc, rn), nb)
	g.quiesce()
	gmc := g.become(w.C, c.gen)
	gmc.AddNotarizedBlock(g.roundOn(gmc, rn), b)
	g.quiesce()
	gb := &genBlock{B: b, V: nb}
	for _, t := range nb.Txns {
		gb.Hashes = append(gb.Hashes, t.Hash)
		if prev, dup := g.seenIn[t.Hash]; dup {
			g.violate("history", "txn-in-two-blocks", fmt.Sprintf("transaction %s (%s nonce %d) is included in the adopted blocks of rounds %d and %d", t.Hash, fnOrType(t), t.Nonce, prev, rn))
		}
		g.seenIn[t.Hash] = rn
		if p := g.byHash[t.Hash]; p != nil {
			for _, q := range g.subs {
				if q.T.Hash == t.Hash {
					q.Included = rn
				}
			}
			g.Tr.Probe("included:" + baseClass(p.Class))
		}
	}
	if rb := g.recBlocks[b.Hash]; rb != nil {
		g.Rec.Blocks[b.Hash] = rb
		g.Rec.C.AddBlock(rb)
	}
	g.chain = append(g.chain, gb)
	g.head, g.vhead = b, nb
	w.Head = b
	g.Tr.Event("round %d: adopted the block of generator %d", rn, c.gen)
}

// poolDiff reports what a generation removed from the pool.
func (g *G) poolDiff(before []string) {
	after := map[string]bool{}
	for _, k := range g.poolKeys() {
		after[k] = true
	}
	n := 0
	for _, k := range before {
		if after[k] {
			continue
		}
		n++
		if p := g.byHash[k]; p != nil {
			g.Tr.Probe("pool_removed_by_generator:" + baseClass(p.Class))
			if strings.Contains(p.Class, "+expired") || strings.Contains(p.Class, "+old") {
				g.Tr.Probe("pool_removed_by_generator:expired")
			}
			if strings.Contains(p.Class, "+lowfee") {
				g.Tr.Probe("pool_removed_by_generator:lowfee")
			}

		}
	}
	if n > 0 {
		g.Tr.Event("generator removed %d transactions from the pool", n)
	}
}

func baseClass(c string) string { return strings.SplitN(c, "+", 2)[0] }

func short(b []byte) []byte {
	if len(b) > 6 {
		return b[:6]
	}
	return b
}

func fnOf(t *transaction.Transaction) string {
	if t.TransactionType == transaction.TxnTypeSmartContract && t.SmartContractData != nil {
		return t.FunctionName
	}
	return ""
}

func fnOrType(t *transaction.Transaction) string {
	if fn := fnOf(t); fn != "" {
		return fn
	}
	return fmt.Sprintf("type%d", t.TransactionType)
}

// wireBlock encodes the block with the codec the shipped sender uses for
// block proposals (msgpack; JSON as the alternative codec of the same
// handlers) and decodes it into a fresh entity exactly as the receiving
// handler does (datastore.From* -> ComputeProperties: transactions get their
// client id back from the public key).
func wireBlock(b *block.Block, json bool) (*block.Block, error) {
	nb := datastore.GetEntityMetadata("block").Instance().(*block.Block)
	if json {
		buf := datastore.ToJSON(b)
		if err := datastore.FromJSON(bytes.NewReader(buf.Bytes()), nb); err != nil {
			return nil, err
		}
	} else {
		buf := datastore.ToMsgpack(b)
		if err := datastore.FromMsgpack(bytes.NewReader(buf.Bytes()), nb); err != nil {
			return nil, err
		}
	}
	if len(nb.Txns) != len(b.Txns) {
		return nil, fmt.Errorf("wire copy has %d of %d transactions", len(nb.Txns), len(b.Txns))
	}
	return nb, nil
}

// checkBlock evaluates the statement's oracles on the block as received. It
// returns the hashes of pool transactions that make the block unacceptable.
func (g *G) checkBlock(gen int, b, nb *block.Block) (offenders []string) {
	w := g.W
	rn := b.Round
	prev := g.head
	seen := map[string]int{}
	next := map[string]int64{}
	builtin := map[string][]string{} // function name -> senders
	var cost int
	lfb := w.C.GetLatestFinalizedBlock()
	minerID := w.Miners[gen].ID
	for i, t := range nb.Txns {
		// no transaction twice
		if j, dup := seen[t.Hash]; dup {
			g.violate("block", "duplicate-txn", fmt.Sprintf("round %d: transaction %s is at positions %d and %d of the block", rn, t.Hash, j, i))
			offenders = append(offenders, t.Hash)
		}
		seen[t.Hash] = i
		// nonces consecutive from the state nonce
		exp, ok := next[t.ClientID]
		if !ok {
			_, n, _ := ledger.Balance(prev.ClientState, t.ClientID)
			exp = n + 1
		}
		if t.Nonce != exp {
			g.violate("block", "nonce-not-consecutive", fmt.Sprintf("round %d txn %d (%s): sender %.8s nonce %d, expected %d", rn, i, fnOrType(t), t.ClientID, t.Nonce, exp))
			offenders = append(offenders, t.Hash)
		}
		next[t.ClientID] = t.Nonce + 1
		// cost
		c, err := w.C.EstimateTransactionCost(w.Ctx, lfb, t)
		if err != nil {
			g.violate("block", "invalid-txn-included/no-cost", fmt.Sprintf("round %d txn %d (%s): cost cannot be estimated: %v", rn, i, fnOrType(t), err))
			offenders = append(offenders, t.Hash)
		} else {
			cost += c
		}
		// built-in at most once
		if fn := fnOf(t); isBuiltinName(fn) {
			builtin[fn] = append(builtin[fn], t.ClientID)
		}
		// every included client transaction was valid at inclusion
		p := g.byHash[t.Hash]
		isOwn := t.ClientID == minerID && isBuiltinName(fnOf(t)) && p == nil
		if p == nil && !isOwn {
			g.violate("block", "invalid-txn-included/unknown", fmt.Sprintf("round %d txn %d (%s from %.8s): neither submitted to the pool nor a built-in transaction of the generator", rn, i, fnOrType(t), t.ClientID))
			continue
		}
		if err := t.VerifyHash(w.Ctx); err != nil {
			g.violate("block", "invalid-txn-included/hash", fmt.Sprintf("round %d txn %d (%s): %v", rn, i, fnOrType(t), err))
			offenders = append(offenders, t.Hash)
		}
		if err := t.VerifySignature(w.Ctx); err != nil {
			g.violate("block", "invalid-txn-included/signature", fmt.Sprintf("round %d txn %d (%s): %v", rn, i, fnOrType(t), err))
			offenders = append(offenders, t.Hash)
		}
		if !common.WithinTime(int64(nb.CreationDate), int64(t.CreationDate), g.tolerance()) {
			g.violate("block", "invalid-txn-included/expired", fmt.Sprintf("round %d txn %d (%s): creation date %d outside ±%d s of the block's %d", rn, i, fnOrType(t), t.CreationDate, g.tolerance(), nb.CreationDate))
			offenders = append(offenders, t.Hash)
		}
		if p != nil {
			// the transaction hash (what the client signs) does not cover the fee (known finding C30):
			// several submissions can share a hash; the included one must equal one of them
			same := false
			for _, q := range g.subs {
				if q.T.Hash == t.Hash && q.Accepted && q.T.Fee == t.Fee && q.T.Value == t.Value && q.T.ToClientID == t.ToClientID && q.T.TransactionData == t.TransactionData && q.T.Nonce == t.Nonce && q.T.CreationDate == t.CreationDate && q.T.Signature == t.Signature {
					same = true
					break
				}
			}
			if !same {
				g.violate("block", "invalid-txn-included/altered", fmt.Sprintf("round %d txn %d (%s): equals none of the submissions with its hash (first: fee %d/%d value %d/%d to %.8s/%.8s nonce %d/%d data %q/%q)", rn, i, fnOrType(t), p.T.Fee, t.Fee, p.T.Value, t.Value, p.T.ToClientID, t.ToClientID, p.T.Nonce, t.Nonce, p.T.TransactionData, t.TransactionData))
			}
			if _, exempt := w.C.ChainConfig.TxnExempt()[fnOf(t)]; !exempt && w.C.IsFeeEnabled() {
				if mf := g.minFee(t); t.Fee < mf {
					g.violate("block", "invalid-txn-included/fee-below-minimum", fmt.Sprintf("round %d txn %d (%s): fee %d, minimum %d", rn, i, fnOrType(t), t.Fee, mf))
					offenders = append(offenders, t.Hash)
				}
			}
		}
	}
	if max := w.C.ChainConfig.MaxBlockCost(); cost > max {
		g.violate("block", "cost-over-limit", fmt.Sprintf("round %d: total cost %d of %d transactions exceeds the block cost limit %d", rn, cost, len(nb.Txns), max))
	} else if cost+w.C.ChainConfig.TxnTransferCost() >= max {
		g.Tr.Probe("cost_limit_reached")
	}
	for _, fn := range builtinNames {
		ss := builtin[fn]
		if len(ss) <= 1 {
			continue
		}
		who := "generator-twice"
		for _, t := range nb.Txns {
			if fnOf(t) == fn && g.byHash[t.Hash] != nil {
				who = "client-submitted"
			}
		}
		g.violate("block", "builtin-twice/"+fn+"/"+who, fmt.Sprintf("round %d: the block contains %d %s transactions (senders %v; generator %.8s)", rn, len(ss), fn, shortIDs(ss), minerID))
		for _, t := range nb.Txns {
			if fnOf(t) == fn && g.byHash[t.Hash] != nil {
				offenders = append(offenders, t.Hash)
			}
		}
	}
	// what the generator held back / skipped
	for _, p := range g.subs {
		if !p.Accepted || p.Included > 0 {
			continue
		}
		if _, in := seen[p.T.Hash]; in {
			continue
		}
		if g.inPool(p.T.Hash) {
			g.Tr.Probe("held_back:" + baseClass(p.Class))
		}
	}
	return offenders
}

func shortIDs(ss []string) []string {
	out := make([]string, len(ss))
	for i, s := range ss {
		if len(s) > 8 {
			s = s[:8]
		}
		out[i] = s
	}
	return out
}

// recompute executes the block on the recomputation replica from a wire copy
// whose transactions carry no outputs and no statuses: root, change count,
// outputs and statuses must come out as the generator published them.
func (g *G) recompute(o roundOpts, b, sentB *block.Block) {
	rn := b.Round
	cp, err := wireBlock(sentB, false)
	if err != nil {
		return
	}
	for _, t := range cp.Txns {
		t.TransactionOutput, t.Status = "", 0
	}
	rb, res := g.execClean(cp)
	if res.Err != "" {
		g.violate("recompute", "clean-recompute-failed/"+errCode(errors.New(res.Err)), fmt.Sprintf("round %d: executing the block from a copy without outputs fails: %s", rn, res.Err))
		return
	}
	if res.Root != util.ToHex(b.ClientStateHash) {
		g.violate("recompute", "root-differs", fmt.Sprintf("round %d: generator root %x, clean recomputation %s", rn, b.ClientStateHash, res.Root))
	}
	if res.ChangeCount != b.StateChangesCount {
		g.violate("recompute", "change-count-differs", fmt.Sprintf("round %d: generator counted %d state changes, clean recomputation %d", rn, b.StateChangesCount, res.ChangeCount))
	}
	for i, t := range rb.Txns {
		gt := b.Txns[i]
		if t.TransactionOutput != gt.TransactionOutput || t.Status != gt.Status || t.ComputeOutputHash() != gt.OutputHash {
			g.violate("recompute", "output-differs/"+fnOrType(gt), fmt.Sprintf("round %d txn %d: generator status=%d output=%.160q hash=%.12s, clean recomputation status=%d output=%.160q", rn, i, gt.Status, gt.TransactionOutput, gt.OutputHash, t.Status, t.TransactionOutput))
			break
		}
	}
	g.Tr.Probe("clean_recompute_equal")
}

// execClean runs the shipped Block.ComputeState on the recomputation replica.
func (g *G) execClean(cp *block.Block) (*block.Block, *ledger.ExecResult) {
	res := &ledger.ExecResult{}
	prev := g.Rec.Blocks[cp.PrevHash]
	if prev == nil {
		res.Err = "previous block unknown on the recomputation replica"
		return cp, res
	}
	cp.SetPreviousBlock(prev)
	if err := cp.ComputeState(g.W.Ctx, g.Rec.C); err != nil {
		res.Err = err.Error()
		return cp, res
	}
	res.Root = util.ToHex(cp.ClientState.GetRoot())
	res.ChangeCount = cp.ClientState.GetChangeCount()
	g.recBlocks[cp.Hash] = cp
	return cp, res
}

// dropOffenders removes pool transactions that make every block unacceptable,
// so that the rest of the plan still explores something (the removal is the
// sim's intervention and is logged).
func (g *G) dropOffenders(b *block.Block, hashes []string) {
	if len(hashes) == 0 {
		return
	}
	var ents []datastore.Entity
	done := map[string]bool{}
	for _, h := range hashes {
		if done[h] {
			continue
		}
		done[h] = true
		if p := g.byHash[h]; p != nil {
			t := p.T.Clone()
			ents = append(ents, t)
		}
	}
	if len(ents) == 0 {
		return
	}
	em := datastore.GetEntityMetadata("txn")
	_ = em.GetStore().MultiDelete(g.W.Ctx, em, ents)
	g.Tr.Event("sim removed %d offending transactions from the pool", len(ents))
}

// ---- a peer whose clock runs ahead -------------------------------------------------------------------

// opAhead lets the round be won by a peer generator whose clock runs ahead of
// everybody else's by skew seconds: its (empty) block is stamped now+skew. The
// bubble clock only moves forward, so the peer's block is not produced by the
// generator under test but by the ledger world's block assembler (real state
// objects, real hash and signature); both nodes adopt it as the notarized block
// of the round through the shipped AddNotarizedBlock (the verifier computes its
// state from the wire copy). The NEXT block is then built by the real generator
// whose own clock is behind its previous block's creation date.
func (g *G) opAhead(st sim.Step) {
	w := g.W
	tol := g.tolerance()
	skews := []int64{2, 5, tol / 2, tol - 1, tol + 1, tol + 50}
	skew := skews[int(st.Int(0, 0))%len(skews)]
	mi := st.A % len(w.Miners)
	rn := g.head.Round + 1
	gmc := g.become(w.C, mi)
	mr := g.roundOn(gmc, rn)
	gmc.SetCurrentRound(rn)
	bc := w.NewBlock(g.head, mi)
	bc.B.CreationDate = w.Now + common.Timestamp(skew)
	if bc.B.CreationDate < g.head.CreationDate {
		bc.B.CreationDate = g.head.CreationDate
	}
	bc.B.SetRoundRandomSeed(g.seedOf(rn))
	b := bc.Finish()
	nb, err := wireBlock(b, false)
	if err != nil {
		g.Tr.Event("ahead block does not decode: %v", err)
		return
	}
	gmc.AddNotarizedBlock(mr, b)
	g.quiesce()
	vmc := g.become(g.Ver.C, (mi+1)%len(w.Miners))
	vr := g.roundOn(vmc, rn)
	vmc.SetCurrentRound(rn)
	nb.SetPreviousBlock(g.vhead)
	if !vmc.AddNotarizedBlock(vr, nb) {
		g.Tr.Event("round %d: the verifier cannot compute the peer's block", rn)
		return
	}
	g.quiesce()
	if cp, err := wireBlock(b, false); err == nil {
		if rb, res := g.execClean(cp); res.Err == "" {
			g.Rec.Blocks[b.Hash] = rb
			g.Rec.C.AddBlock(rb)
		}
	}
	g.chain = append(g.chain, &genBlock{B: b, V: nb})
	g.head, g.vhead = b, nb
	w.Head = b
	g.Tr.Fault("previous_block_dated_ahead_of_generator_clock")
	g.Tr.Event("round %d: peer %d (clock +%d s) wins the round with an empty block dated %d (now %d)", rn, mi, skew, b.CreationDate, w.Now)
}

// ---- finalisation ----------------------------------------------------------------------------------

// opFin finalises adopted blocks up to head-lag on both nodes: state changes
// persisted (shipped SaveChanges), latest finalized block moved, and the
// generator's pool cleaned by the shipped miner.Chain.FinalizeBlock.
func (g *G) opFin(st sim.Step) {
	lag := st.Int(0, 0) % 4
	upto := g.head.Round - lag
	vupto := upto + 1 - st.Int(2, 0)%3 // the verifier may finalize earlier or later than the generator
	if vupto > g.head.Round {
		vupto = g.head.Round
	}
	for _, gb := range g.chain {
		if gb.B.Round > g.lfbRound && gb.B.Round <= upto {
			g.finalize(gb, st.Int(1, 0)%5 == 4)
		}
		if gb.B.Round > g.vlfbRound && gb.B.Round <= vupto {
			g.finalizeVerifier(gb)
		}
	}
	if g.vlfbRound < g.lfbRound {
		g.Tr.Fault("verifier_lfb_lags")
	}
}

func (g *G) finalizeVerifier(gb *genBlock) {
	if err := g.Ver.C.SaveChanges(g.W.Ctx, gb.V); err != nil {
		g.Tr.Event("finalize %d: verifier save changes: %s", gb.B.Round, errCode(err))
	}
	g.Ver.C.SetLatestFinalizedBlock(gb.V)
	g.quiesce()
	g.vlfbRound = gb.B.Round
}

func (g *G) finalize(gb *genBlock, failStore bool) {
	w := g.W
	mc := g.become(w.C, 0)
	if err := w.C.SaveChanges(w.Ctx, gb.B); err != nil {
		g.Tr.Event("finalize %d: save changes: %s", gb.B.Round, errCode(err))
	}
	w.C.SetLatestFinalizedBlock(gb.B)
	if failStore {
		g.failOp, g.failLeft = "multidelete", 1 << 20
	}
	ferr := mc.FinalizeBlock(w.Ctx, gb.B)
	g.failLeft = 0
	g.quiesce()
	g.lfbRound = gb.B.Round
	left := 0
	if ferr == nil {
		for _, h := range gb.Hashes {
			if g.inPool(h) {
				left++
			}
		}
		if left > 0 {
			g.violate("pool", "finalized-txn-not-removed", fmt.Sprintf("after FinalizeBlock of round %d, %d of its %d transactions are still in the pool", gb.B.Round, left, len(gb.Hashes)))
		}
	}
	g.Tr.Event("finalize %d: pool cleanup err=%q left=%d pool=%d", gb.B.Round, errCode(ferr), left, len(g.poolKeys()))
	g.Tr.Probe("finalized")
}

var _ = chain.GetServerChain
var _ = miner.GetMinerChain
