// Race-detector driver for the ValidateTransactions sub-target of C44.
//
//	go test -race -c -tags verif -o /tmp/x/genrace.test ./worlds/ledger/gen/racecmd
//	GEN_RACE_SEEDS=5 GEN_RACE_BASE=1 GORACE="halt_on_error=0" /tmp/x/genrace.test -test.run TestValidateTransactionsRace -test.v
//
// The race detector is the oracle: every "WARNING: DATA RACE" block on stderr
// names the two accesses (file:line). The process exits with status 66 when at
// least one race was reported (Go's default GORACE exitcode).
package racecmd

import (
	"os"
	"strconv"
	"testing"

	"verif/worlds/ledger/gen"
)

func envInt(k string, def int) int {
	if v, err := strconv.Atoi(os.Getenv(k)); err == nil {
		return v
	}
	return def
}

func TestValidateTransactionsRace(t *testing.T) {
	base := uint64(envInt("GEN_RACE_BASE", 1))
	n := envInt("GEN_RACE_SEEDS", 3)
	for i := 0; i < n; i++ {
		rep, err := gen.RaceWorkload(base + uint64(i))
		if err != nil {
			t.Fatalf("seed %d: %v (%+v)", base+uint64(i), err, rep)
		}
		t.Logf("seed %d: %+v", base+uint64(i), *rep)
	}
}
