package tokens

import (
	"encoding/hex"
	"encoding/json"
	"fmt"
	"math/big"

	"0chain.net/chaincore/state"
	"0chain.net/chaincore/transaction"
	"0chain.net/core/common"
	"0chain.net/core/encryption"
	"0chain.net/smartcontract/multisigsc"
	"github.com/0chain/common/core/currency"

	"verif/sim"
	"verif/worlds/ledger"
	"verif/worlds/wkit"
)

// ---- C21: multisig --------------------------------------------------------------------------------

const msScheme = "bls0chain"

func msWalletKey(id string) string { return multisigsc.Address + id }
func msProposalKey(wallet, pid string) string {
	return multisigsc.Address + wallet + encryption.Hash(pid)
}

type voteJSON struct {
	ProposalID string         `json:"proposal_id"`
	Transfer   state.Transfer `json:"transfer"`
	Signature  string         `json:"signature"`
}

func transferHash(t state.Transfer) string { return encryption.Hash(t.Encode()) }

func idOfPK(pk string) string {
	b, err := hex.DecodeString(pk)
	if err != nil {
		return ""
	}
	return encryption.Hash(b)
}

// ---- model shared by the oracle and by the workload's C04 authorisation ---------------------------

type msLife struct {
	created  int64
	expires  int64
	transfer state.Transfer
	voters   map[string]string // signer public key -> signature
	order    []string          // signer public keys in voting order
	executed bool
}

type msModel struct {
	report  bool // report violations (oracle) or stay quiet (workload)
	wallets map[string]*multisigsc.Wallet
	lives   map[string]*msLife // wallet id + "/" + proposal id
	execs   map[string]int     // executions per wallet/proposal over the whole history (all lives)
}

func newMsModel(report bool) *msModel {
	return &msModel{report: report, wallets: map[string]*multisigsc.Wallet{}, lives: map[string]*msLife{}, execs: map[string]int{}}
}

func (m *msModel) violate(w *ledger.World, oracle, sig, format string, a ...any) {
	if m.report {
		violate(w, "C21", oracle, sig, format, a...)
	}
}

func signerPK(wl *multisigsc.Wallet, clientID string) (pk, thresholdID string) {
	for i, k := range wl.SignerPublicKeys {
		if idOfPK(k) == clientID && i < len(wl.SignerThresholdIDs) {
			return k, wl.SignerThresholdIDs[i]
		}
	}
	return "", ""
}

func verifyUnder(pk, sig, hash string) bool {
	ss := encryption.GetSignatureScheme(msScheme)
	if ss == nil || ss.SetPublicKey(pk) != nil {
		return false
	}
	ok, err := ss.Verify(sig, hash)
	return ok && err == nil
}

// judge decides, from the property statement, whether a vote counts: the
// wallet is registered, the sender is one of its registered signers, the
// signature verifies under that signer's key over the proposed transfer, and
// the vote is compatible with the live proposal (same transfer), cast before
// it expired. It returns the life the vote belongs to (possibly a fresh one,
// not yet stored) and whether the vote counts.
func (m *msModel) judge(sender string, v *voteJSON, now int64) (wl *multisigsc.Wallet, life *msLife, key string, counts bool, why string) {
	wl = m.wallets[v.Transfer.ClientID]
	key = v.Transfer.ClientID + "/" + v.ProposalID
	life = m.lives[key]
	if life != nil && now >= life.expires {
		life = nil // expired: a later vote opens a new proposal
	}
	if wl == nil {
		return wl, life, key, false, "wallet-not-registered"
	}
	pk, _ := signerPK(wl, sender)
	if pk == "" {
		return wl, life, key, false, "sender-not-a-signer"
	}
	if v.Transfer.Amount == 0 || v.Signature == "" {
		return wl, life, key, false, "malformed"
	}
	if !verifyUnder(pk, v.Signature, transferHash(v.Transfer)) {
		return wl, life, key, false, "bad-signature"
	}
	if life != nil && life.transfer != v.Transfer {
		return wl, life, key, false, "incompatible"
	}
	if life == nil {
		life = &msLife{created: now, expires: now + multisigsc.ExpirationTime, transfer: v.Transfer, voters: map[string]string{}}
	}
	return wl, life, key, true, ""
}

// groupSignatureValid reconstructs the threshold signature from the first T
// recorded votes with the shipped reconstruction scheme and verifies it under
// the wallet's group key.
func groupSignatureValid(wl *multisigsc.Wallet, life *msLife) bool {
	rec := encryption.GetReconstructSignatureScheme(msScheme, wl.NumRequired, len(wl.SignerThresholdIDs))
	for _, pk := range life.order {
		tss := encryption.GetThresholdSignatureScheme(msScheme)
		if tss.SetPublicKey(pk) != nil {
			return false
		}
		id := ""
		for i, k := range wl.SignerPublicKeys {
			if k == pk {
				id = wl.SignerThresholdIDs[i]
			}
		}
		if tss.SetID(id) != nil {
			return false
		}
		if rec.Add(tss, life.voters[pk]) != nil {
			return false
		}
	}
	sig, err := rec.Reconstruct()
	if err != nil {
		return false
	}
	return verifyUnder(wl.PublicKey, sig, transferHash(life.transfer))
}

// predict tells the workload whether the vote it is about to submit would
// complete a proposal, and whether the resulting threshold signature verifies
// under the wallet's key (only then is the debit authorised for oracle C04).
func (m *msModel) predict(sender string, v *voteJSON, now int64) (exec, sigOK bool) {
	wl, life, _, counts, _ := m.judge(sender, v, now)
	if !counts || life.executed {
		return false, false
	}
	pk, _ := signerPK(wl, sender)
	if _, dup := life.voters[pk]; dup {
		return false, false
	}
	if len(life.voters)+1 < wl.NumRequired {
		return false, false
	}
	tmp := &msLife{transfer: life.transfer, voters: map[string]string{}, order: append([]string(nil), life.order...)}
	for k, s := range life.voters {
		tmp.voters[k] = s
	}
	tmp.voters[pk] = v.Signature
	tmp.order = append(tmp.order, pk)
	return true, groupSignatureValid(wl, tmp)
}

// observe is fed every applied transaction.
func (m *msModel) observe(w *ledger.World, bc *ledger.BlockCtx, o *ledger.Outcome) {
	if o.Class == ledger.Rejected {
		return
	}
	t := o.Txn
	d := deltasOf(w, o)
	toMS := t.TransactionType == transaction.TxnTypeSmartContract && t.ToClientID == ledger.AddrMultisig
	now := int64(bc.B.CreationDate) // the contract's clock is the block's creation date

	if toMS && t.FunctionName == "register" && o.Class == ledger.Success {
		if ch, ok := d.recs[msWalletKey(t.ClientID)]; ok && len(ch.New) > 0 {
			wl := &multisigsc.Wallet{}
			if _, err := wl.UnmarshalMsg(ch.New); err == nil {
				if _, had := m.wallets[t.ClientID]; had {
					m.violate(w, "wallet", "C21/registered-wallet-replaced", "wallet %s registered again", t.ClientID)
				}
				m.wallets[t.ClientID] = wl
				if m.report {
					w.Tr.Probe("oracle_wallet_registered")
				}
			}
		}
	}

	// which registered wallets lost tokens in this transaction?
	var debited []string
	for _, id := range ledger.SortedKeys(m.wallets) {
		if id == t.ClientID {
			continue // the wallet's own transactions are authorised by the wallet key itself (ingestion)
		}
		c := d.of(id)
		if c.Sign() < 0 {
			debited = append(debited, id)
		}
	}

	// a vote that counts (registered signer, valid signature, compatible, unexpired, not a repeat)
	// must not be refused: otherwise the proposal could never be executed
	if toMS && t.FunctionName == "vote" && o.Class == ledger.Chargeable {
		var rv voteJSON
		if json.Unmarshal(t.SmartContractData.InputData, &rv) == nil {
			prev := m.lives[rv.Transfer.ClientID+"/"+rv.ProposalID]
			reopened := prev != nil && now >= prev.expires // expired proposals are pruned lazily: re-proposing may be refused for a while
			if wl, life, _, counts, _ := m.judge(t.ClientID, &rv, now); counts && !life.executed && !reopened {
				pk, _ := signerPK(wl, t.ClientID)
				if _, dup := life.voters[pk]; !dup {
					m.violate(w, "execution", "C21/valid-vote-refused", "a counted vote (%d of %d so far) was refused: %s", len(life.voters), wl.NumRequired, errStr(o))
				}
			}
		}
	}
	isVote := toMS && t.FunctionName == "vote" && o.Class == ledger.Success
	var v voteJSON
	if isVote {
		if err := json.Unmarshal(t.SmartContractData.InputData, &v); err != nil {
			isVote = false
		}
	}
	if !isVote {
		for _, id := range debited {
			m.violate(w, "debit", "C21/wallet-debited-outside-proposal-execution", "wallet %s lost %s in %s/%s of %s", id[:8], new(big.Int).Neg(d.of(id)), t.FunctionName, o.Class, t.ClientID[:8])
		}
		return
	}
	wl, life, key, counts, why := m.judge(t.ClientID, &v, now)
	executed := false
	for _, id := range debited {
		if id == v.Transfer.ClientID {
			executed = true
		} else {
			m.violate(w, "debit", "C21/other-wallet-debited-by-vote", "wallet %s lost %s in a vote on a proposal of %s", id[:8], new(big.Int).Neg(d.of(id)), v.Transfer.ClientID)
		}
	}
	if m.report {
		w.Tr.Probe("oracle_vote_checked")
		if !counts {
			w.Tr.Probe("oracle_vote_not_counted:" + why)
		}
	}
	if counts {
		pk, _ := signerPK(wl, t.ClientID)
		if _, dup := life.voters[pk]; !dup {
			life.voters[pk] = v.Signature
			life.order = append(life.order, pk)
		} else if m.report {
			w.Tr.Probe("oracle_duplicate_vote")
		}
		m.lives[key] = life
	}
	if !executed {
		if counts && !life.executed && len(life.voters) >= wl.NumRequired {
			m.violate(w, "execution", "C21/not-executed-after-threshold-votes", "%d distinct valid votes of %d required were accepted, no transfer was made", len(life.voters), wl.NumRequired)
		}
		return
	}
	// a transfer out of the wallet happened
	if m.report {
		w.Tr.Probe("oracle_execution_checked")
	}
	amount := new(big.Int).Neg(d.of(v.Transfer.ClientID))
	if v.Transfer.ClientID == t.ClientID {
		amount.Sub(amount, feeOf(w, t))
	}
	m.execs[key]++
	switch {
	case wl == nil:
		m.violate(w, "execution", "C21/executed-for-unregistered-wallet", "account %s debited by a vote, no such wallet", v.Transfer.ClientID)
		return
	case life == nil || !counts && len(life.voters) < wl.NumRequired:
		n := 0
		if life != nil {
			n = len(life.voters)
		}
		m.violate(w, "execution", "C21/executed-without-enough-valid-votes", "executed with %d distinct valid compatible votes, %d required (this vote: %s)", n, wl.NumRequired, why)
		return
	case life.executed:
		m.violate(w, "execution", "C21/proposal-executed-twice", "proposal %s of wallet %s executed again", v.ProposalID, v.Transfer.ClientID[:8])
	case len(life.voters) < wl.NumRequired:
		m.violate(w, "execution", "C21/executed-without-enough-valid-votes", "executed with %d distinct valid compatible votes before expiry, %d required", len(life.voters), wl.NumRequired)
	}
	life.executed = true
	if life.transfer != v.Transfer {
		m.violate(w, "execution", "C21/executed-transfer-differs-from-proposal", "executed %+v, proposed %+v", v.Transfer, life.transfer)
	}
	if amount.Cmp(bigU(uint64(life.transfer.Amount))) != 0 {
		m.violate(w, "execution", "C21/executed-amount-differs-from-proposal", "wallet lost %s, proposal says %d", amount, uint64(life.transfer.Amount))
	}
	got := new(big.Int).Set(d.of(life.transfer.ToClientID))
	if life.transfer.ToClientID == t.ClientID {
		got.Add(got, feeOf(w, t))
	}
	if life.transfer.ToClientID != life.transfer.ClientID && got.Cmp(amount) != 0 {
		m.violate(w, "execution", "C21/recipient-credit-differs-from-amount", "recipient changed by %s, wallet lost %s", got, amount)
	}
	// the executed transfer's signature, as recorded by the contract, must verify under the wallet's group key
	pr := rawRecord(bc, msProposalKey(v.Transfer.ClientID, v.ProposalID))
	if pr == nil {
		m.violate(w, "execution", "C21/no-proposal-record-after-execution", "proposal record missing after execution")
		return
	}
	if fS(pr, "ExecutedInTxnHash") != t.Hash {
		m.violate(w, "execution", "C21/execution-not-recorded", "ExecutedInTxnHash=%q, executing transaction %s", fS(pr, "ExecutedInTxnHash"), t.Hash)
	}
	if !verifyUnder(wl.PublicKey, fS(pr, "ClientSignature"), transferHash(life.transfer)) {
		m.violate(w, "signature", "C21/executed-transfer-signature-invalid", "the transfer of %d from wallet %s was executed with a threshold signature that does not verify under the wallet's key (%d votes, %d required)",
			uint64(life.transfer.Amount), v.Transfer.ClientID[:8], len(life.voters), wl.NumRequired)
	} else if m.report {
		w.Tr.Probe("oracle_threshold_signature_verified")
	}
}

// ---- workload -------------------------------------------------------------------------------------

type msWallet struct {
	group   encryption.SignatureScheme
	id      string
	signers []encryption.SignatureScheme // signing keys of the registered signers
	ids     []string                     // threshold ids
	t       int
	bogus   bool
}

func genMultisig(r *sim.RNG, p *sim.Plan, tier string) []sim.Step {
	if p.CfgInt("funding", 0) < 1e13 {
		p.Cfg["funding"] = 1e13
	}
	n := r.Range(20, 70)
	if tier == "thorough" {
		n = r.Range(20, 180)
	}
	var out []sim.Step
	reg := func(k int) sim.Step {
		ns := 2 + r.Intn(4)
		if r.Intn(4) == 0 {
			ns = 2 + r.Intn(20) // up to 21 (one above the maximum)
		}
		// I: wallet k, signers, threshold kind, key kind (0 real shares, 1 unrelated signer keys), funding kind
		return sim.Step{Op: "ms.register", A: r.Intn(5), I: []int64{int64(k), int64(ns), int64(r.Pick([]int{4, 3, 2, 1, 1})), int64(r.Pick([]int{9, 2})), int64(r.Pick([]int{5, 1}))}}
	}
	nw := 1 + r.Intn(3)
	for k := 0; k < nw; k++ {
		out = append(out, reg(k))
	}
	for i := 0; i < n; i++ {
		switch r.Pick([]int{1, 20, 3, 2}) {
		case 0:
			out = append(out, reg(r.Intn(4)))
		case 1:
			// I: wallet k, proposal p, signer j, content kind, signature kind, sender kind
			out = append(out, sim.Step{Op: "ms.vote", A: r.Intn(5), I: []int64{int64(r.Intn(4)), int64(r.Intn(5)), int64(r.Intn(21)),
				int64(r.Pick([]int{12, 1, 1})), int64(r.Pick([]int{12, 1, 1, 1, 1})), int64(r.Pick([]int{12, 1}))}})
		case 2:
			out = append(out, sim.Step{Op: "ms.clock", I: []int64{int64(r.Intn(4)), int64(r.Intn(5)), int64(r.Pick([]int{3, 2, 2, 2, 1, 1}))}})
		case 3:
			out = append(out, sim.Step{Op: "block", I: []int64{0, int64(r.Intn(2))}})
		}
	}
	return out
}

func setupMultisig(w *ledger.World, r *ledger.Runner) {
	tr := w.Tr
	model := newMsModel(false)
	wallets := map[int]*msWallet{}
	first := map[string]bool{}
	probeFirst := func(name string) {
		if !first[name] {
			first[name] = true
			tr.Probe("first_" + name)
		}
		tr.Probe(name)
	}
	keys := sim.NewRNG(w.Seed).Child("keys")
	r.Ops["ms.register"] = func(r *ledger.Runner, st sim.Step) {
		r.EnsureBlock()
		k := int(st.Int(0, 0))
		ns := int(st.Int(1, 3))
		mw := wallets[k]
		if mw == nil {
			mw = &msWallet{group: wkit.NewKeys(msScheme, keys.Child(fmt.Sprintf("msw/%d", k)))}
			mw.id = idOfPK(mw.group.GetPublicKey())
			switch st.Int(2, 0) % 5 {
			case 0:
				mw.t = 2
			case 1:
				mw.t = ns/2 + 1
			case 2:
				mw.t = ns
			case 3:
				mw.t = ns + 1
			case 4:
				mw.t = 1
			}
			tt := mw.t
			if tt < 1 {
				tt = 1
			}
			if tt > ns {
				tt = ns
			}
			wkit.SeedBLS(keys.Child(fmt.Sprintf("msw-shares/%d", k)))
			shares, err := encryption.GenerateThresholdKeyShares(msScheme, tt, ns, mw.group)
			if err != nil {
				tr.Event("share generation failed: %v", err)
				return
			}
			mw.bogus = st.Int(3, 0) != 0
			for j, s := range shares {
				mw.ids = append(mw.ids, s.GetID())
				if mw.bogus {
					// signer keys that are NOT shares of the wallet key
					mw.signers = append(mw.signers, wkit.NewKeys(msScheme, keys.Child(fmt.Sprintf("msw-bogus/%d/%d", k, j))))
				} else {
					mw.signers = append(mw.signers, s)
				}
			}
			if mw.bogus {
				tr.Fault("wallet_signer_keys_unrelated_to_wallet_key")
			}
			wallets[k] = mw
			// fund the wallet from a client
			from, _ := w.Account(st.A % max(1, len(w.Clients)))
			val := int64(1e11)
			if st.Int(4, 0) != 0 {
				val = 2e9
			}
			r.Submit(w.MakeTxn(ledger.TxnSpec{From: from, To: mw.id, Type: transaction.TxnTypeSend, Value: val, Fee: r.ResolveFee(0, from), Nonce: r.ResolveNonce(ledger.NExpected, from)}))
		} else {
			tr.Fault("register_again")
		}
		var pks []string
		for _, s := range mw.signers {
			pks = append(pks, s.GetPublicKey())
		}
		in := map[string]any{"client_id": mw.id, "signature_scheme": msScheme, "public_key": mw.group.GetPublicKey(),
			"signer_threshold_ids": mw.ids, "signer_public_keys": pks, "num_required": mw.t}
		o := call(r, mw.id, ledger.AddrMultisig, "register", in, "", 0, 0)
		model.observe(w, r.BC, o)
		switch o.Class {
		case ledger.Success:
			probeFirst("multisig_register_ok")
			if len(mw.signers) >= 10 {
				tr.Probe("multisig_register_many_signers")
			}
		case ledger.Chargeable:
			tr.Fault("register_refused")
		default:
			tr.Fault("register_rejected")
		}
	}
	content := func(mw *msWallet, p int64, kind int64) state.Transfer {
		to, _ := w.Account(int(p))
		amt := []uint64{1, 1000, 1e9, 5e9, 1e13}[p%5]
		switch kind {
		case 1:
			amt += 7
		case 2:
			to, _ = w.Account(int(p) + 1)
		}
		return state.Transfer{ClientID: mw.id, ToClientID: to, Amount: currency.Coin(amt)}
	}
	r.Ops["ms.vote"] = func(r *ledger.Runner, st sim.Step) {
		r.EnsureBlock()
		var ks []int
		for k := 0; k < 4; k++ {
			if wallets[k] != nil {
				ks = append(ks, k)
			}
		}
		if len(ks) == 0 {
			return
		}
		mw := wallets[ks[int(st.Int(0, 0))%len(ks)]]
		p := st.Int(1, 0)
		j := int(st.Int(2, 0)) % len(mw.signers)
		tf := content(mw, p, st.Int(3, 0))
		if st.Int(3, 0) != 0 {
			tr.Fault("vote_incompatible_content")
		}
		signer := mw.signers[j]
		hash := transferHash(tf)
		var sig string
		switch st.Int(4, 0) {
		case 0:
			sig, _ = signer.Sign(hash)
		case 1:
			sig, _ = signer.Sign(hash)
			sig = tamperHex(sig)
			tr.Fault("vote_signature_forged")
		case 2:
			sig, _ = mw.signers[(j+1)%len(mw.signers)].Sign(hash)
			tr.Fault("vote_signature_by_other_signer")
		case 3:
			other := tf
			other.Amount += 1
			sig, _ = signer.Sign(transferHash(other))
			tr.Fault("vote_signature_over_other_transfer")
		default:
			sig, _ = mw.group.Sign(hash)
			tr.Fault("vote_signed_with_wallet_key")
		}
		from := idOfPK(signer.GetPublicKey())
		if st.Int(5, 0) != 0 {
			from, _ = w.Account(st.A)
			tr.Fault("vote_by_unauthorised_sender")
		}
		v := voteJSON{ProposalID: fmt.Sprintf("proposal-%d", p), Transfer: tf, Signature: sig}
		now := int64(r.BC.B.CreationDate)
		if exec, ok := model.predict(from, &v, now); exec {
			if ok {
				// the workload re-verified the reconstructed threshold signature under the wallet key
				w.AuthoriseDebit(mw.id, bigU(uint64(tf.Amount)))
			} else {
				tr.Probe("multisig_execution_with_unverifiable_group_signature_expected")
			}
		}
		spec := ledger.TxnSpec{From: from, To: ledger.AddrMultisig, Type: transaction.TxnTypeSmartContract, Name: "vote", Input: v, Fee: 0, Nonce: r.ResolveNonce(ledger.NExpected, from)}
		o := r.Submit(w.MakeTxn(spec))
		before := model.execs[mw.id+"/"+v.ProposalID]
		model.observe(w, r.BC, o)
		switch o.Class {
		case ledger.Success:
			probeFirst("multisig_vote_ok")
			if model.execs[mw.id+"/"+v.ProposalID] > before {
				probeFirst("multisig_vote_executed")
			}
		case ledger.Chargeable:
			tr.Fault("vote_refused")
		default:
			tr.Fault("vote_rejected")
		}
	}
	r.Ops["ms.clock"] = func(r *ledger.Runner, st sim.Step) {
		// the contract reads the block's creation date: close the block, then move the clock
		r.EndBlock(false)
		now := int64(w.Now)
		d := int64(1)
		var exp int64
		for k := 0; k < 4; k++ {
			if mw := wallets[(k+int(st.Int(0, 0)))%4]; mw != nil {
				if l := model.lives[mw.id+"/"+fmt.Sprintf("proposal-%d", st.Int(1, 0))]; l != nil {
					exp = l.expires
					break
				}
			}
		}
		switch st.Int(2, 0) % 6 {
		case 0:
			d = 1
		case 1:
			d = 86400
		case 2:
			if exp > now+1 {
				d = exp - 1 - now
			}
		case 3:
			if exp > now {
				d = exp - now
			}
		case 4:
			d = multisigsc.ExpirationTime + 1
		case 5:
			d = 3 * 86400
		}
		if d < 1 {
			d = 1
		}
		w.Now += common.Timestamp(d)
		tr.SimTime += float64(d)
		tr.Fault("clock_jump")
		tr.Event("clock +%d", d)
	}
}

type multisigOracle struct{ m *msModel }

func (o multisigOracle) AfterTxn(w *ledger.World, bc *ledger.BlockCtx, out *ledger.Outcome) {
	o.m.observe(w, bc, out)
}
func (o multisigOracle) AfterBlock(w *ledger.World, bc *ledger.BlockCtx) {}

var multisigScenario = ledger.Scenario{
	Prop:    "C21",
	Weights: map[string]int{"send": 2, "call": 1, "pour": 0, "data": 0, "replay": 3, "block": 3, "clock": 1},
	Lo:      3, Hi: 12,
	GenExtra: func(r *sim.RNG, p *sim.Plan, tier string) {
		p.Steps = mix(r.Child("mix"), p.Steps, genMultisig(r.Child("multisig"), p, tier))
	},
	Setup: func(w *ledger.World, r *ledger.Runner) []ledger.Observer {
		setupRaw(w, r)
		setupMultisig(w, r)
		return []ledger.Observer{multisigOracle{m: newMsModel(true)}}
	},
}

func init() {
	sim.Register(&sim.Check{
		ID: "C21", Title: "Multisig proposals execute once, after enough distinct votes", World: "ledger",
		Gen: multisigScenario.Gen, Exec: multisigScenario.Exec,
		Quick: sim.Budget{Runs: 300, WallS: 75}, Thorough: sim.Budget{Runs: 24000, WallS: 1000},
		LevelText: "seeded search over multisig histories: wallets registered with 2-21 signers and thresholds 1..n+1 using real threshold key shares (encryption.GenerateThresholdKeyShares) or, as a fault, signer keys unrelated to the wallet key; votes by seeded signers on a handful of proposals per wallet, repeated (duplicate votes with a fresh nonce), with incompatible content, forged signatures, another signer's signature, signatures over another transfer or by the wallet key, by unauthorised senders, after clock jumps to just before / at / after the proposal's expiry (block time), byte-identical replays; " +
			"the oracle keeps its own count of distinct registered signers whose signature it verified itself with the shipped scheme, per proposal life, and checks on the MPT diff: a wallet is debited only by an executing vote, at most once per proposal, only with >= threshold counted votes, by exactly the proposed amount to the proposed recipient, and the recorded threshold signature verifies under the wallet's group key",
		LevelNote: "a proposal that expired and was voted again is a new proposal (it needs threshold-many fresh votes); StateContext.Validate() runs before the contract on the pinned tree, so the chain never verifies the signed transfer's signature — the oracle does",
		Technique: "deterministic simulation: seeded vote/clock histories with real threshold keys, vote-counting reference model with signature re-verification, MPT diff",
		DesignRef: "6/C21, 8 (C04 row)", Regime: "single-threaded event loop", Components: ledger.W1Components,
	})
}
