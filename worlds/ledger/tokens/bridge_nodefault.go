package tokens

import (
	"bytes"
	"encoding/json"
	"fmt"

	cstate "0chain.net/chaincore/chain/state"
	"0chain.net/core/encryption"
	"github.com/0chain/common/core/util"
	"github.com/linxGnu/grocksdb"

	"verif/sim"
	"verif/worlds/ledger"
)

// ---- C19 fault kind: the state node of the burner's user record cannot be read ---------------------
//
// Op "br.nodefault" (A unused; I: pair index, kind mask, final clean burn):
//
//  1. the block under assembly is sealed and persisted (SaveChanges); the whole state of the head must be
//     readable from the persistent node DB on the simulated disk (otherwise the step is skipped);
//  2. the head is "finalised and the process restarted": its state is rebased on the persistent node DB (what
//     Chain.rebaseState does at finalisation) and the chain gets a fresh state cache, so the next block reads
//     every node from the simulated disk;
//  3. a (burner, address) pair with at least one successful burn is chosen and the leaf of the address' user
//     node is located on disk (the only node that lies on that path alone);
//  4. kind bit 0, "lost": the leaf is dropped from the simulated disk, the same client burns again, then the
//     leaf is put back through PNodeDB.PutNode (the missing node arrives from a peer);
//     kind bit 1, "read error": the first disk read of the user-node lookup of the next burn (the reads after
//     the contract fetched its global node) fails once with an I/O error; the MPT reports it to the contract
//     as util.ErrNodeNotFound, the write path later reads the node fine;
//  5. optionally one more burn by the same client with no fault.
//
// The oracle is the unchanged burnOracle: every burn either changes nothing or moves the value and takes the
// stored nonce from N to N+1 == number of successful burns of the address.

type burnPair struct{ client, eth string }

// burnTracker remembers which client burned to which address successfully (in order of first success).
type burnTracker struct {
	pairs []burnPair
	seen  map[burnPair]bool
}

func newBurnTracker() *burnTracker { return &burnTracker{seen: map[burnPair]bool{}} }

func (bt *burnTracker) AfterBlock(w *ledger.World, bc *ledger.BlockCtx) {}

func (bt *burnTracker) AfterTxn(w *ledger.World, bc *ledger.BlockCtx, o *ledger.Outcome) {
	if o.Class != ledger.Success || !isSC(o.Txn, ledger.AddrZCN, "burn") {
		return
	}
	var in struct {
		Eth string `json:"ethereum_address"`
	}
	if json.Unmarshal(o.Txn.SmartContractData.InputData, &in) != nil || in.Eth == "" {
		return
	}
	p := burnPair{o.Txn.ClientID, in.Eth}
	if !bt.seen[p] {
		bt.seen[p] = true
		bt.pairs = append(bt.pairs, p)
	}
}

// genNodeFault inserts the fault steps into the later part of a C19 plan.
func genNodeFault(r *sim.RNG, p *sim.Plan, tier string) {
	if r.Intn(2) != 0 || len(p.Steps) == 0 {
		return
	}
	p.Cfg["c19_nodefault"] = 1
	n := 1 + r.Intn(2)
	for i := 0; i < n; i++ {
		st := sim.Step{Op: "br.nodefault", I: []int64{int64(r.Intn(16)), int64(1 + r.Pick([]int{1, 3, 4})), int64(r.Pick([]int{1, 3}))}}
		at := len(p.Steps)/3 + r.Intn(len(p.Steps)-len(p.Steps)/3+1)
		p.Steps = append(p.Steps[:at], append([]sim.Step{st}, p.Steps[at:]...)...)
	}
}

// pathNodes walks the persistent node DB from root along path and returns the keys and nodes met.
func pathNodes(db util.NodeDB, root util.Key, path []byte) ([]util.Key, []util.Node, error) {
	var keys []util.Key
	var nodes []util.Node
	key := root
	for {
		n, err := db.GetNode(key)
		if err != nil {
			return nil, nil, err
		}
		keys, nodes = append(keys, key), append(nodes, n)
		switch nd := n.(type) {
		case *util.LeafNode:
			if !bytes.Equal(nd.Path, path) {
				return nil, nil, util.ErrValueNotPresent
			}
			return keys, nodes, nil
		case *util.FullNode:
			if len(path) == 0 {
				return keys, nodes, nil
			}
			key = nd.GetChild(path[0])
			if key == nil {
				return nil, nil, util.ErrValueNotPresent
			}
			path = path[1:]
		case *util.ExtensionNode:
			if !bytes.HasPrefix(path, nd.Path) {
				return nil, nil, util.ErrValueNotPresent
			}
			key, path = nd.NodeKey, path[len(nd.Path):]
		default:
			return nil, nil, fmt.Errorf("unexpected node type %T", n)
		}
	}
}

func setupNodeFault(w *ledger.World, r *ledger.Runner, bt *burnTracker) {
	tr := w.Tr
	if r.Plan != nil && r.Plan.CfgInt("c19_nodefault", 0) != 0 {
		// every block is finalised: its state changes are persisted
		r.SaveAll = true
	}
	// one-shot read error, armed per transaction
	var fs struct {
		armed   bool   // a burn with the fault is in flight
		userKey string // contract key of the user node
		window  bool   // the contract has fetched its global node: the next disk read belongs to the user-node lookup
		fired   bool   // the read error was injected
		hit     bool   // ... and surfaced as ErrNodeNotFound on the read of the user node
		other   bool   // ... and surfaced somewhere else
	}
	w.Reg.Hooks = append(w.Reg.Hooks, func(a *ledger.Access) {
		if !fs.armed {
			return
		}
		switch {
		case a.Key == bridgeGlobalKey && !fs.fired:
			fs.window = true
		case fs.window:
			fs.window = false
			if fs.fired && a.Key == fs.userKey && a.Op == cstate.VerifOpGetMiss && a.Err == util.ErrNodeNotFound {
				fs.hit = true
			} else if fs.fired {
				fs.other = true
			}
		}
	})
	r.Ops["br.nodefault"] = func(r *ledger.Runner, st sim.Step) {
		if len(bt.pairs) == 0 {
			return
		}
		r.EndBlock(true)
		head := w.Head
		sdb := w.C.GetStateDB()
		if head == nil || head.ClientState == nil {
			return
		}
		if _, err := ledger.Leaves(sdb, head.ClientStateHash); err != nil {
			// some block was not persisted (hand-written / shrunk plan without the save-all knob)
			tr.Event("nodefault skipped: state of round %d is not complete on disk", head.Round)
			return
		}
		pr := bt.pairs[int(st.Int(0, 0))%len(bt.pairs)]
		key := bridgeUserKey(pr.eth)
		keys, nodes, err := pathNodes(sdb, head.ClientStateHash, []byte(util.Path(encryption.Hash(key))))
		if err != nil {
			tr.Event("nodefault skipped: user node not on disk (%v)", err)
			return
		}
		leafKey := keys[len(keys)-1]
		leaf, ok := nodes[len(nodes)-1].(*util.LeafNode)
		if !ok {
			tr.Event("nodefault skipped: user node is not a leaf")
			return
		}
		stored := userNonce(leaf.GetValueBytes())
		// the head is final and the process restarts: state served by the persistent node DB, caches empty
		head.ClientState.SetNodeDB(sdb)
		w.C.SetupStateCache()
		r.EnsureBlock()
		burn := func() *ledger.Outcome {
			minBurn := uint64(1e10)
			if gn := bridgeGlobal(r.BC); gn != nil {
				minBurn = uint64(gn.MinBurnAmount)
			}
			return call(r, pr.client, ledger.AddrZCN, "burn", nil, fmt.Sprintf(`{"ethereum_address":%q}`, pr.eth), minBurn+12345, 0)
		}
		kind := st.Int(1, 3)
		tr.Event("nodefault round=%d address-nonce=%d depth=%d kind=%d", head.Round, stored, len(keys), kind)
		if kind&1 != 0 {
			if !w.Disk.DropKey("default", string(leafKey)) {
				panic("nodefault: leaf found through the node DB is not a key of the simulated disk")
			}
			tr.Fault("burn_user_node_lost")
			o := burn()
			tr.Event("nodefault lost: burn %s", o.Class)
			tr.Outcome("burn-user-node-lost/" + o.Class)
			if err := sdb.PutNode(leafKey, leaf); err != nil {
				panic(fmt.Sprintf("nodefault: cannot put the node back: %v", err))
			}
			if n, err := sdb.GetNode(leafKey); err != nil || !bytes.Equal(n.GetHashBytes(), leafKey) {
				panic(fmt.Sprintf("nodefault: node put back is not the node dropped: %v", err))
			}
		}
		if kind&2 != 0 {
			fs.armed, fs.userKey, fs.window, fs.fired, fs.hit, fs.other = true, key, false, false, false, false
			w.Disk.SetFault(func(_ *grocksdb.Disk, op string, _ uint64) error {
				if op == "get" && fs.window && !fs.fired {
					fs.fired = true
					return grocksdb.ErrInjected
				}
				return nil
			})
			o := burn()
			w.Disk.SetFault(nil)
			fs.armed = false
			switch {
			case fs.hit:
				tr.Fault("burn_user_node_read_error")
				tr.Outcome("burn-user-node-read-error/" + o.Class)
			case fs.fired:
				tr.Probe("nodefault_read_error_elsewhere")
			default:
				tr.Probe("nodefault_read_error_not_fired")
			}
			tr.Event("nodefault read error: fired=%v on-user-node=%v burn %s", fs.fired, fs.hit, o.Class)
		}
		if st.Int(2, 1) != 0 {
			o := burn()
			tr.Event("nodefault clean burn %s %s", o.Class, errStr(o))
			if o.Class == ledger.Success {
				tr.Probe("nodefault_burn_after_fault_ok")
			}
		}
	}
}
