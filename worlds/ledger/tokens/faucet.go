package tokens

import (
	"fmt"
	"math/big"
	"strings"
	"time"

	"0chain.net/chaincore/transaction"
	"0chain.net/core/common"
	"0chain.net/core/encryption"
	"0chain.net/smartcontract/faucetsc"
	"github.com/0chain/common/core/util"

	"verif/sim"
	"verif/worlds/ledger"
)

// ---- C17: faucet limits ---------------------------------------------------------------------------

var faucetGlobalKey = faucetsc.ADDRESS + encryption.Hash("faucetsc_config")

func faucetUserKey(id string) string { return faucetsc.ADDRESS + id }

func readInto(bc *ledger.BlockCtx, key string, v interface {
	UnmarshalMsg([]byte) ([]byte, error)
}) bool {
	b, err := bc.State.GetNodeValueRaw(util.Path(encryption.Hash(key)))
	if err != nil || len(b) == 0 {
		return false
	}
	_, err = v.UnmarshalMsg(b)
	return err == nil
}

func faucetGlobal(bc *ledger.BlockCtx) *faucetsc.GlobalNode {
	gn := &faucetsc.GlobalNode{}
	if !readInto(bc, faucetGlobalKey, gn) || gn.FaucetConfig == nil {
		return nil
	}
	return gn
}

func faucetUser(bc *ledger.BlockCtx, id string) *faucetsc.UserNode {
	un := &faucetsc.UserNode{}
	if !readInto(bc, faucetUserKey(id), un) {
		return nil
	}
	return un
}

// genFaucet: configuration changes through the real update-settings owner
// transaction, pours with symbolic values (relative to the configuration in
// force at execution time) and clock points relative to the reset windows.
func genFaucet(r *sim.RNG, p *sim.Plan, tier string) []sim.Step {
	n := r.Range(20, 70)
	if tier == "thorough" {
		n = r.Range(20, 200)
	}
	var out []sim.Step
	cfgStep := func() sim.Step {
		// valid configurations: pour <= max <= periodic <= global, resets >= 1s, global reset >= individual
		pour := []int64{1, 3, 1e9, 1e10, 5e10}[r.Pick([]int{1, 1, 2, 4, 2})]
		max := pour * []int64{1, 2, 10, 100}[r.Pick([]int{1, 3, 3, 2})]
		per := max * []int64{1, 2, 3, 10}[r.Pick([]int{2, 3, 3, 2})]
		glob := per * []int64{1, 2, 5}[r.Pick([]int{2, 3, 2})]
		ind := []int64{2, 30, 3600, 3 * 3600}[r.Pick([]int{2, 3, 2, 1})]
		gr := ind * []int64{1, 2, 16}[r.Pick([]int{2, 3, 2})]
		// kind: 0 valid by owner, 1 by a non-owner, 2.. invalid orderings
		kind := int64(r.Pick([]int{12, 1, 1, 1, 1, 1}))
		return sim.Step{Op: "fc.cfg", A: r.Intn(8), I: []int64{pour, max, per, glob, ind, gr, kind}}
	}
	if r.Intn(5) != 0 {
		out = append(out, cfgStep())
	}
	for i := 0; i < n; i++ {
		switch r.Pick([]int{1, 14, 5, 1, 2}) {
		case 0:
			out = append(out, cfgStep())
		case 1:
			// value kinds: see resolvePourValue
			out = append(out, sim.Step{Op: "fc.pour", A: r.Intn(4), I: []int64{int64(r.Pick([]int{3, 3, 5, 3, 1, 1, 1, 2, 1})), int64(r.Pick([]int{8, 1}))}})
		case 2:
			out = append(out, sim.Step{Op: "fc.clock", I: []int64{int64(r.Pick([]int{3, 2, 2, 2, 2, 1, 1, 1}))}})
		case 3:
			out = append(out, sim.Step{Op: "fc.refill", A: r.Intn(4), I: []int64{int64(r.Pick([]int{1, 3, 2}))}})
		case 4:
			out = append(out, sim.Step{Op: "block", I: []int64{0, int64(r.Intn(2))}})
		}
	}
	return out
}

func setupFaucet(w *ledger.World, r *ledger.Runner) {
	tr := w.Tr
	first := map[string]bool{}
	probeFirst := func(name string) {
		if !first[name] {
			first[name] = true
			tr.Probe("first_" + name)
		}
		tr.Probe(name)
	}
	r.Ops["fc.cfg"] = func(r *ledger.Runner, st sim.Step) {
		r.EnsureBlock()
		v := func(k int) uint64 { return uint64(st.Int(k, 1)) }
		pour, max, per, glob, ind, gr := v(0), v(1), v(2), v(3), st.Int(4, 60), st.Int(5, 120)
		kind := st.Int(6, 0)
		from := w.OwnerID
		switch kind {
		case 1:
			from, _ = w.Account(st.A)
			tr.Fault("settings_wrong_caller")
		case 2:
			pour, max = max+1, pour // pour > max
		case 3:
			per = max - 1 // periodic < max (0 when max == 1)
			if max <= 1 {
				per = 0
				max = 2
				pour = 1
			}
		case 4:
			glob = per - 1
		case 5:
			gr = ind - 1
		}
		if kind >= 2 {
			tr.Fault("settings_invalid")
		}
		fields := map[string]string{
			"pour_amount": coinStr(pour), "max_pour_amount": coinStr(max), "periodic_limit": coinStr(per), "global_limit": coinStr(glob),
			"individual_reset": fmt.Sprintf("%ds", ind), "global_rest": fmt.Sprintf("%ds", gr),
		}
		o := call(r, from, ledger.AddrFaucet, "update-settings", map[string]any{"fields": fields}, "", 0, 0)
		if o.Class == ledger.Success {
			probeFirst("faucet_settings_updated")
		}
	}
	r.Ops["fc.pour"] = func(r *ledger.Runner, st sim.Step) {
		r.EnsureBlock()
		from, _ := w.Account(st.A % max(1, len(w.Clients)))
		gn := faucetGlobal(r.BC)
		var val uint64
		if gn != nil {
			val = resolvePourValue(st.Int(0, 0), gn, faucetUser(r.BC, from), w.Now)
		}
		o := call(r, from, ledger.AddrFaucet, "pour", nil, "{}", val, st.Int(1, 0)*2)
		switch o.Class {
		case ledger.Success:
			probeFirst("pour_ok")
			if val > 0 && gn != nil && val != uint64(gn.PourAmount) && val < uint64(gn.MaxPourAmount) {
				tr.Probe("pour_requested_value_used")
			}
		case ledger.Chargeable:
			e := errStr(o)
			switch {
			case strings.Contains(e, "periodic limit"):
				tr.Fault("pour_refused_periodic_limit")
			case strings.Contains(e, "global limit"):
				tr.Fault("pour_refused_global_limit")
			default:
				tr.Fault("pour_refused_other")
			}
		default:
			tr.Fault("pour_rejected")
		}
	}
	r.Ops["fc.refill"] = func(r *ledger.Runner, st sim.Step) {
		r.EnsureBlock()
		from, _ := w.Account(st.A % max(1, len(w.Clients)))
		val := uint64(r.ResolveValue([]int64{ledger.VOne, ledger.VSmall, ledger.VMedium}[st.Int(0, 0)%3], from))
		if o := call(r, from, ledger.AddrFaucet, "refill", nil, "{}", val, 0); o.Class == ledger.Success {
			probeFirst("refill_ok")
		}
	}
	r.Ops["fc.clock"] = func(r *ledger.Runner, st sim.Step) {
		r.EnsureBlock()
		gn := faucetGlobal(r.BC)
		ind, gr := int64(3*3600), int64(48*3600)
		if gn != nil {
			ind, gr = int64(gn.IndividualReset/time.Second), int64(gn.GlobalReset/time.Second)
		}
		d := []int64{1, ind / 2, ind - 1, ind, ind + 1, gr - 1, gr, gr + 1}[st.Int(0, 0)%8]
		if d < 1 {
			d = 1
		}
		w.Now += common.Timestamp(d)
		tr.SimTime += float64(d)
		tr.Fault("clock_jump")
		tr.Event("clock +%d", d)
	}
}

// resolvePourValue: 0 -> 0 (contract default), 1 -> pour amount, 2 -> max-1,
// 3 -> midway between pour and max, 4 -> max, 5 -> max+1, 6 -> 1,
// 7 -> what is left of the client's periodic limit, 8 -> very large.
func resolvePourValue(kind int64, gn *faucetsc.GlobalNode, un *faucetsc.UserNode, now common.Timestamp) uint64 {
	pour, mx, per := uint64(gn.PourAmount), uint64(gn.MaxPourAmount), uint64(gn.PeriodicLimit)
	switch kind % 9 {
	case 0:
		return 0
	case 1:
		return pour
	case 2:
		if mx > 0 {
			return mx - 1
		}
		return 0
	case 3:
		return (pour + mx) / 2
	case 4:
		return mx
	case 5:
		return mx + 1
	case 6:
		return 1
	case 7:
		var used uint64
		if un != nil {
			used = uint64(un.Used)
		}
		if per > used {
			return per - used
		}
		return 1
	default:
		return 1 << 62
	}
}

// faucetOracle (C17): the amounts are the balance changes found by the MPT
// diff of each transaction; limits and reset durations are the configuration
// stored in the trie; a window is identified by the window start the contract
// stores for the client / globally, and a window may only be replaced once it
// has lapsed.
type faucetOracle struct {
	user map[string]*window
	glob *window
}

type window struct {
	start int64
	sum   *big.Int
}

func newFaucetOracle() *faucetOracle { return &faucetOracle{user: map[string]*window{}} }

func (f *faucetOracle) AfterBlock(w *ledger.World, bc *ledger.BlockCtx) {}

func (f *faucetOracle) AfterTxn(w *ledger.World, bc *ledger.BlockCtx, o *ledger.Outcome) {
	if o.Class == ledger.Rejected {
		return
	}
	t := o.Txn
	d := deltasOf(w, o)
	fd := d.of(ledger.AddrFaucet)
	now := int64(t.CreationDate)
	gn := faucetGlobal(bc)
	if gn == nil {
		if t.ToClientID == ledger.AddrFaucet {
			violate(w, "C17", "config", "C17/faucet-configuration-unreadable", "the faucet global node cannot be read from the trie")
		}
		return
	}
	toFaucet := t.TransactionType == transaction.TxnTypeSmartContract && t.ToClientID == ledger.AddrFaucet
	// the global window: may only restart when the previous one lapsed
	if ch, changed := d.recs[faucetGlobalKey]; changed && o.Class == ledger.Success {
		gs := gn.StartTime.Unix()
		if f.glob == nil || f.glob.start != gs {
			// the reset duration in force is the one stored before this transaction (update-settings may change it)
			inForce := gn.GlobalReset
			old := &faucetsc.GlobalNode{}
			if _, err := old.UnmarshalMsg(ch.Old); err == nil && old.FaucetConfig != nil {
				inForce = old.GlobalReset
			}
			if f.glob != nil && now-f.glob.start < int64(inForce/time.Second) && now >= f.glob.start {
				violate(w, "C17", "window", "C17/global-window-restarted-early", "global window started %d restarted at %d, global reset %v", f.glob.start, now, inForce)
			}
			f.glob = &window{start: gs, sum: new(big.Int)}
			w.Tr.Probe("global_window_opened")
		}
	}
	if fd.Sign() >= 0 {
		return
	}
	// the faucet wallet lost tokens: that must be a pour to the sender
	amount := new(big.Int).Neg(fd)
	if !toFaucet || t.FunctionName != "pour" || o.Class != ledger.Success {
		violate(w, "C17", "debit", fmt.Sprintf("C17/faucet-debited-outside-pour/%s/%s", t.FunctionName, o.Class), "faucet wallet lost %s in %s to %s", amount, t.FunctionName, t.ToClientID)
		return
	}
	w.Tr.Probe("oracle_pour_checked")
	if pre, ok := d.pre(ledger.AddrFaucet); ok && amount.Cmp(bigU(pre)) > 0 {
		violate(w, "C17", "balance", "C17/pour-exceeds-faucet-balance", "poured %s with faucet balance %d", amount, pre)
	}
	got := new(big.Int).Add(d.of(t.ClientID), feeOf(w, t))
	if got.Cmp(amount) != 0 {
		violate(w, "C17", "transfer", "C17/poured-amount-not-received-by-requester", "faucet lost %s, requester gained %s (fee excluded)", amount, got)
	}
	if oth := d.others(ledger.AddrFaucet, t.ClientID, ledger.AddrMiner); len(oth) > 0 {
		violate(w, "C17", "transfer", "C17/pour-changed-third-account", "account %s changed by %s in a pour", oth[0], d.of(oth[0]))
	}
	// per-client window
	un := faucetUser(bc, t.ClientID)
	if un == nil {
		violate(w, "C17", "window", "C17/no-user-record-after-pour", "no user record for %s after a successful pour", t.ClientID)
		return
	}
	us := un.StartTime.Unix()
	reset := int64(gn.IndividualReset / time.Second)
	if g := int64(gn.GlobalReset / time.Second); g < reset {
		reset = g
	}
	uw := f.user[t.ClientID]
	if uw == nil || uw.start != us {
		if uw != nil && now >= uw.start && now-uw.start < reset {
			violate(w, "C17", "window", "C17/client-window-restarted-early", "client window started %d restarted at %d, reset %ds", uw.start, now, reset)
		}
		if uw != nil {
			w.Tr.Probe("client_window_reopened")
		}
		uw = &window{start: us, sum: new(big.Int)}
		f.user[t.ClientID] = uw
	}
	if us > now || now-us >= reset {
		violate(w, "C17", "window", "C17/pour-outside-its-window", "pour at %d booked in window starting %d (reset %ds)", now, us, reset)
	}
	uw.sum.Add(uw.sum, amount)
	if uw.sum.Cmp(bigU(uint64(gn.PeriodicLimit))) > 0 {
		violate(w, "C17", "client-limit", "C17/client-window-sum-exceeds-periodic-limit",
			"client %s received %s in the window starting %d, periodic limit %d (this pour %s, requested %d, pour_amount %d, max_pour_amount %d)",
			t.ClientID[:8], uw.sum, us, uint64(gn.PeriodicLimit), amount, uint64(t.Value), uint64(gn.PourAmount), uint64(gn.MaxPourAmount))
	}
	// global window
	if f.glob == nil {
		f.glob = &window{start: gn.StartTime.Unix(), sum: new(big.Int)}
	}
	gs := gn.StartTime.Unix()
	if gs > now || now-gs >= int64(gn.GlobalReset/time.Second) {
		violate(w, "C17", "window", "C17/pour-outside-global-window", "pour at %d booked in global window starting %d (reset %v)", now, gs, gn.GlobalReset)
	}
	f.glob.sum.Add(f.glob.sum, amount)
	if f.glob.sum.Cmp(bigU(uint64(gn.GlobalLimit))) > 0 {
		violate(w, "C17", "global-limit", "C17/global-window-sum-exceeds-global-limit",
			"all clients received %s in the global window starting %d, global limit %d (this pour %s, requested %d, pour_amount %d)",
			f.glob.sum, gs, uint64(gn.GlobalLimit), amount, uint64(t.Value), uint64(gn.PourAmount))
	}
}

var faucetScenario = ledger.Scenario{
	Prop:    "C17",
	Weights: map[string]int{"send": 2, "call": 1, "pour": 3, "data": 0, "replay": 2, "block": 3, "clock": 1},
	Lo:      3, Hi: 14,
	GenExtra: func(r *sim.RNG, p *sim.Plan, tier string) {
		if p.CfgInt("funding", 0) < 1e10 {
			p.Cfg["funding"] = 1e13
		}
		p.Steps = mix(r.Child("mix"), p.Steps, genFaucet(r.Child("faucet"), p, tier))
	},
	Setup: func(w *ledger.World, r *ledger.Runner) []ledger.Observer {
		setupRaw(w, r)
		setupFaucet(w, r)
		return []ledger.Observer{newFaucetOracle()}
	},
}

func init() {
	sim.Register(&sim.Check{
		ID: "C17", Title: "Faucet pours respect the per-client and global limits", World: "ledger",
		Gen: faucetScenario.Gen, Exec: faucetScenario.Exec,
		Quick: sim.Budget{Runs: 400, WallS: 75}, Thorough: sim.Budget{Runs: 40000, WallS: 900},
		LevelText: "seeded search over pour histories: several clients, requested values chosen relative to the configuration in force (0, pour_amount, between pour_amount and max_pour_amount, max, max+1, what is left of the limit, huge), " +
			"clock points placed around the individual and global reset windows, valid configurations varied through the real update-settings owner transaction (plus invalid ones and wrong callers as faults); " +
			"per-client and global sums of the balance changes found in the MPT diff are compared with the limits stored in the trie, window changes with the reset durations",
		LevelNote: "a window is identified by the window start the contract stores (user node / global node); the oracle checks that a window is only replaced after it lapsed and that every pour lies inside its window, the sums themselves are computed from balance changes only",
		Technique: "deterministic simulation: seeded pour/clock/settings histories, window-sum oracle on the MPT diff of the real trie",
		DesignRef: "6/C17, appendix D", Regime: "single-threaded event loop", Components: ledger.W1Components,
	})
}
