package tokens

import (
	"encoding/json"
	"fmt"
	"math"
	"math/big"
	"strings"

	"0chain.net/chaincore/transaction"
	"0chain.net/core/encryption"
	"0chain.net/smartcontract/provider"
	"0chain.net/smartcontract/stakepool"
	"0chain.net/smartcontract/stakepool/spenum"
	"0chain.net/smartcontract/storagesc"
	"0chain.net/smartcontract/zcnsc"

	"verif/sim"
	"verif/worlds/ledger"
	"verif/worlds/wkit"
)

// ---- bridge (zcnsc): C19 burn, C18 mint -----------------------------------------------------------

var bridgeGlobalKey = fmt.Sprintf("%s:%s:%s", zcnsc.ADDRESS, zcnsc.GlobalNodeType, zcnsc.ADDRESS)

const bridgeUserPrefix = zcnsc.ADDRESS + ":" + zcnsc.UserNodeType + ":"

func bridgeUserKey(eth string) string { return bridgeUserPrefix + eth }

func bridgeGlobal(bc *ledger.BlockCtx) *zcnsc.GlobalNode {
	gn := &zcnsc.GlobalNode{}
	if !readInto(bc, bridgeGlobalKey, gn) || gn.ZCNSConfig == nil {
		return nil
	}
	return gn
}

func bridgeAuthorizer(bc *ledger.BlockCtx, id string) *zcnsc.AuthorizerNode {
	an := &zcnsc.AuthorizerNode{}
	if !readInto(bc, provider.GetKey(id), an) {
		return nil
	}
	if an.ProviderType != spenum.Authorizer {
		return nil
	}
	return an
}

func bridgeAuthCount(bc *ledger.BlockCtx) int {
	ac := &zcnsc.AuthCount{}
	if !readInto(bc, storagesc.AUTHORIZERS_COUNT_KEY, ac) {
		return 0
	}
	return ac.Count
}

func authStakeKey(id string) string { return stakepool.StakePoolKey(spenum.Authorizer, id) }

// poolRewards sums everything a stake pool owes as rewards: provider reward + delegate rewards.
func poolRewards(b []byte) *big.Int {
	s := new(big.Int)
	if len(b) == 0 {
		return s
	}
	sp := &zcnsc.StakePool{}
	if _, err := sp.UnmarshalMsg(b); err != nil {
		return s
	}
	s.Add(s, bigU(uint64(sp.Reward)))
	for _, p := range sp.Pools {
		if p != nil {
			s.Add(s, bigU(uint64(p.Reward)))
		}
	}
	return s
}

type authz struct {
	keys encryption.SignatureScheme
	pk   string
	id   string
}

// mintMessage is the string authorizers sign: burn reference, amount, nonce, receiving client.
func mintMessage(txid string, amount uint64, nonce int64, receiver string) string {
	return encryption.Hash(fmt.Sprintf("%v:%v:%v:%v", txid, amount, nonce, receiver))
}

type sigJSON struct {
	ID  string `json:"authorizer_id"`
	Sig string `json:"signature"`
}

type mintJSON struct {
	TxnID    string    `json:"ethereum_txn_id"`
	Amount   int64     `json:"amount"`
	Nonce    int64     `json:"nonce"`
	Sigs     []sigJSON `json:"signatures"`
	Receiver string    `json:"receiving_client_id"`
}

func genBridge(r *sim.RNG, p *sim.Plan, tier string, burn, mint bool) []sim.Step {
	if p.CfgInt("funding", 0) < 1e13 {
		p.Cfg["funding"] = 1e13
	}
	n := r.Range(15, 60)
	if tier == "thorough" {
		n = r.Range(15, 160)
	}
	var out []sim.Step
	cfg := func() sim.Step {
		// percent (in 1/100), max_fee (coins), min_mint (coins), min_burn (coins), caller kind
		pct := []int64{70, 50, 60, 75, 100, 34, 67}[r.Pick([]int{4, 2, 2, 2, 2, 1, 2})]
		fee := []int64{1, 7, 100, 1000}[r.Pick([]int{1, 2, 3, 2})]
		mm := []int64{1, 1000, 1e10}[r.Pick([]int{2, 2, 2})]
		mb := []int64{1, 1000, 1e10}[r.Pick([]int{2, 2, 2})]
		return sim.Step{Op: "br.cfg", A: r.Intn(8), I: []int64{pct, fee, mm, mb, int64(r.Pick([]int{14, 1}))}}
	}
	auth := func() sim.Step {
		// authorizer #j, delegate wallet account, num delegates, service charge %, caller kind (0 owner)
		return sim.Step{Op: "br.auth", A: r.Intn(8), I: []int64{int64(r.Intn(7)), int64(r.Intn(6)), int64(1 + r.Intn(4)), []int64{0, 10, 100}[r.Intn(3)], int64(r.Pick([]int{14, 1}))}}
	}
	stake := func() sim.Step {
		// authorizer #j, value kind
		return sim.Step{Op: "br.stake", A: r.Intn(5), I: []int64{int64(r.Intn(7)), int64(r.Pick([]int{6, 2, 1}))}}
	}
	burnStep := func() sim.Step {
		// value kind, address kind
		return sim.Step{Op: "br.burn", A: r.Intn(5), I: []int64{int64(r.Pick([]int{1, 2, 3, 2, 4, 2, 1, 1})), int64(r.Pick([]int{3, 3, 2, 2, 1, 1}))}}
	}
	mintStep := func() sim.Step {
		// I: receiverKind, amountKind, nonceKind, nonceArg, validMask, tamperMask, dupMask, foreign, wrongKeyMask, order seed, signedFieldTamper
		valid := int64(r.Intn(128))
		switch r.Pick([]int{5, 2, 2}) {
		case 0:
			valid = 127 // everybody signs
		case 1:
			valid = int64(r.Intn(128)) | int64(r.Intn(128))
		}
		tam, dup, wrong := int64(0), int64(0), int64(0)
		if r.Intn(4) == 0 {
			tam = int64(r.Intn(128)) & int64(r.Intn(128))
		}
		if r.Intn(4) == 0 {
			dup = int64(r.Intn(128))
		}
		if r.Intn(6) == 0 {
			wrong = int64(r.Intn(128)) & int64(r.Intn(128))
		}
		return sim.Step{Op: "br.mint", A: r.Intn(5), I: []int64{int64(r.Pick([]int{12, 1})), int64(r.Pick([]int{5, 1, 2, 1, 3, 1})),
			int64(r.Pick([]int{10, 3, 1, 1})), int64(r.Intn(64)), valid, tam, dup, int64(r.Pick([]int{8, 1, 1})), wrong, int64(r.Intn(1 << 20)), int64(r.Pick([]int{12, 1, 1, 1, 1})),
			// last: the same authorizer repeated with its one valid signature in varied hex case
			// (0 none, v: 2+v%5 copies; v >= 8: nothing else in the payload)
			int64(r.Pick([]int{5, 1}) * (1 + r.Intn(14)))}}
	}
	if mint {
		if r.Intn(3) != 0 {
			out = append(out, cfg())
		}
		na := 1 + r.Intn(6)
		for j := 0; j < na; j++ {
			s := auth()
			s.I[0] = int64(j)
			s.I[4] = 0
			out = append(out, s)
		}
		for j := 0; j < na; j++ {
			if r.Intn(6) != 0 {
				out = append(out, sim.Step{Op: "br.stake", A: r.Intn(5), I: []int64{int64(j), 0}})
			}
		}
	} else if r.Intn(2) == 0 {
		out = append(out, cfg())
	}
	for i := 0; i < n; i++ {
		var ws []int
		switch {
		case burn && mint:
			ws = []int{1, 1, 1, 6, 9, 1, 2}
		case mint:
			ws = []int{1, 2, 2, 1, 14, 1, 2}
		default:
			ws = []int{2, 0, 0, 16, 0, 0, 2}
		}
		switch r.Pick(ws) {
		case 0:
			out = append(out, cfg())
		case 1:
			out = append(out, auth())
		case 2:
			out = append(out, stake())
		case 3:
			out = append(out, burnStep())
		case 4:
			out = append(out, mintStep())
		case 5: // delete authorizer #j, caller kind
			out = append(out, sim.Step{Op: "br.unauth", A: r.Intn(8), I: []int64{int64(r.Intn(7)), int64(r.Pick([]int{5, 1}))}})
		case 6:
			out = append(out, sim.Step{Op: "block", I: []int64{0, int64(r.Intn(2))}})
		}
	}
	return out
}

type bridgeWL struct {
	auths      map[int]*authz
	usedNonces []int64
	nextNonce  int64
	burnRefs   int
}

func (b *bridgeWL) auth(w *ledger.World, j int) *authz {
	if a, ok := b.auths[j]; ok {
		return a
	}
	ks := wkit.NewKeys(w.Cfg.Scheme, sim.NewRNG(w.Seed).Child("keys").Child(fmt.Sprintf("authorizer/%d", j)))
	id, _ := encryption.GetClientIDFromPublicKey(ks.GetPublicKey())
	a := &authz{keys: ks, pk: ks.GetPublicKey(), id: id}
	b.auths[j] = a
	return a
}

func setupBridge(w *ledger.World, r *ledger.Runner) {
	tr := w.Tr
	wl := &bridgeWL{auths: map[int]*authz{}, nextNonce: 1}
	first := map[string]bool{}
	probeFirst := func(name string) {
		if !first[name] {
			first[name] = true
			tr.Probe("first_" + name)
		}
		tr.Probe(name)
	}
	outcome := func(name string, o *ledger.Outcome) {
		switch o.Class {
		case ledger.Success:
			probeFirst(name + "_ok")
		case ledger.Chargeable:
			tr.Fault(name + "_refused")
		default:
			tr.Fault(name + "_rejected")
		}
	}
	r.Ops["br.cfg"] = func(r *ledger.Runner, st sim.Step) {
		from := w.OwnerID
		if st.Int(4, 0) != 0 {
			from, _ = w.Account(st.A)
			tr.Fault("settings_wrong_caller")
		}
		fields := map[string]string{
			"percent_authorizers": fmt.Sprintf("%.2f", float64(st.Int(0, 70))/100), "max_fee": fmt.Sprint(st.Int(1, 100)),
			"min_mint": coinStr(uint64(st.Int(2, 1e10))), "min_burn": coinStr(uint64(st.Int(3, 1e10))), "min_stake": "1",
		}
		o := call(r, from, ledger.AddrZCN, "update-global-config", map[string]any{"fields": fields}, "", 0, 0)
		if o.Class == ledger.Success {
			probeFirst("bridge_settings_updated")
		}
	}
	r.Ops["br.auth"] = func(r *ledger.Runner, st sim.Step) {
		r.EnsureBlock()
		a := wl.auth(w, int(st.Int(0, 0)))
		from := w.OwnerID
		if st.Int(4, 0) != 0 {
			from, _ = w.Account(st.A)
			tr.Fault("add_authorizer_wrong_caller")
		}
		dw, _ := w.Account(int(st.Int(1, 0)) % max(1, len(w.Clients)))
		if bridgeAuthorizer(r.BC, a.id) != nil {
			tr.Fault("add_authorizer_duplicate")
		}
		in := map[string]any{"public_key": a.pk, "url": fmt.Sprintf("https://auth%d.sim", st.Int(0, 0)),
			"stake_pool_settings": map[string]any{"delegate_wallet": dw, "num_delegates": st.Int(2, 2), "service_charge": float64(st.Int(3, 0)) / 100}}
		outcome("add_authorizer", call(r, from, ledger.AddrZCN, "add-authorizer", in, "", 0, 0))
	}
	r.Ops["br.unauth"] = func(r *ledger.Runner, st sim.Step) {
		r.EnsureBlock()
		a := wl.auth(w, int(st.Int(0, 0)))
		from := w.OwnerID
		if st.Int(1, 0) != 0 {
			from, _ = w.Account(st.A)
			tr.Fault("delete_authorizer_wrong_caller")
		}
		outcome("delete_authorizer", call(r, from, ledger.AddrZCN, "delete-authorizer", map[string]any{"id": a.id}, "", 0, 0))
	}
	r.Ops["br.stake"] = func(r *ledger.Runner, st sim.Step) {
		r.EnsureBlock()
		a := wl.auth(w, int(st.Int(0, 0)))
		from, _ := w.Account(st.A % max(1, len(w.Clients)))
		val := []uint64{2e10, 1e10, 1e9}[st.Int(1, 0)%3]
		in := map[string]any{"provider_type": int(spenum.Authorizer), "provider_id": a.id}
		outcome("stake_authorizer", call(r, from, ledger.AddrZCN, "add-to-delegate-pool", in, "", val, 0))
	}
	r.Ops["br.burn"] = func(r *ledger.Runner, st sim.Step) {
		r.EnsureBlock()
		from, _ := w.Account(st.A % max(1, len(w.Clients)))
		gn := bridgeGlobal(r.BC)
		minBurn := uint64(1e10)
		if gn != nil {
			minBurn = uint64(gn.MinBurnAmount)
		}
		bal, _, _ := ledger.Balance(r.BC.State, from)
		var val uint64
		switch st.Int(0, 0) % 8 {
		case 0:
			val = 0
		case 1:
			if minBurn > 0 {
				val = minBurn - 1
			}
		case 2:
			val = minBurn
		case 3:
			val = minBurn + 1
		case 4:
			val = minBurn + 12345
		case 5:
			val = uint64(bal) / 2
		case 6:
			val = uint64(bal) + 1
		case 7:
			val = uint64(bal)
		}
		if val < minBurn {
			tr.Fault("burn_below_minimum")
		}
		var raw string
		switch st.Int(1, 0) % 6 {
		case 0:
			raw = `{"ethereum_address":"0xA11ce0000000000000000000000000000000a11c"}`
		case 1:
			raw = `{"ethereum_address":"0xB0b0000000000000000000000000000000000b0b"}`
		case 2:
			raw = fmt.Sprintf(`{"ethereum_address":"0x%040x"}`, st.A+1)
		case 3:
			raw = `{"ethereum_address":""}`
			tr.Fault("burn_empty_address")
		case 4:
			raw = `{}`
			tr.Fault("burn_empty_address")
		case 5:
			raw = `{"ethereum_address":`
			tr.Fault("burn_malformed_payload")
		}
		outcome("burn", call(r, from, ledger.AddrZCN, "burn", nil, raw, val, 0))
	}
	r.Ops["br.mint"] = func(r *ledger.Runner, st sim.Step) {
		r.EnsureBlock()
		from, _ := w.Account(st.A % max(1, len(w.Clients)))
		gn := bridgeGlobal(r.BC)
		if gn == nil {
			return
		}
		receiver := from
		if st.Int(0, 0) != 0 {
			receiver, _ = w.Account((st.A + 1) % max(1, len(w.Clients)))
			if receiver != from {
				tr.Fault("mint_wrong_receiver")
			}
		}
		minMint, maxFee := uint64(gn.MinMintAmount), uint64(gn.MaxFee)
		floor := max(minMint, maxFee)
		var amount uint64
		switch st.Int(1, 0) % 6 {
		case 0:
			amount = floor + 777
		case 1:
			amount = floor
		case 2:
			amount = 5e10 + uint64(st.Int(9, 0))
			if amount < floor {
				amount = floor
			}
		case 3:
			if floor > 0 {
				amount = floor - 1
				tr.Fault("mint_below_minimum")
			}
		case 4:
			amount = floor + uint64(st.Int(9, 0))
		case 5:
			amount = 1 << 62 // more than the bridge wallet holds
		}
		var nonce int64
		switch st.Int(2, 0) % 4 {
		case 0:
			nonce = wl.nextNonce
		case 1:
			if len(wl.usedNonces) > 0 {
				nonce = wl.usedNonces[int(st.Int(3, 0))%len(wl.usedNonces)]
				tr.Fault("mint_nonce_replayed")
			} else {
				nonce = wl.nextNonce
			}
		case 2:
			nonce = 1e12 + st.Int(3, 0)
		case 3:
			nonce = -st.Int(3, 0) - 1
		}
		wl.burnRefs++
		txid := fmt.Sprintf("0x%064x", wl.burnRefs)
		msg := mintMessage(txid, amount, nonce, receiver)
		var sigs []sigJSON
		// authorizers known to the workload, in index order
		var idx []int
		for j := 0; j < 7; j++ {
			if _, ok := wl.auths[j]; ok {
				idx = append(idx, j)
			}
		}
		validMask, tamMask, dupMask, wrongMask := st.Int(4, 127), st.Int(5, 0), st.Int(6, 0), st.Int(8, 0)
		signedTamper := st.Int(10, 0)
		for _, j := range idx {
			if validMask&(1<<uint(j)) == 0 {
				continue
			}
			a := wl.auths[j]
			m := msg
			switch signedTamper {
			case 1:
				m = mintMessage(txid, amount+1, nonce, receiver)
			case 2:
				m = mintMessage(txid, amount, nonce+1, receiver)
			case 3:
				m = mintMessage(txid, amount, nonce, w.OwnerID)
			case 4:
				m = mintMessage(txid+"0", amount, nonce, receiver)
			}
			signer := a
			if wrongMask&(1<<uint(j)) != 0 && len(idx) > 1 {
				// another registered authorizer's key under this authorizer's id
				signer = wl.auths[idx[(indexOf(idx, j)+1)%len(idx)]]
				tr.Fault("mint_signature_by_other_authorizers_key")
			}
			sig, err := signer.keys.Sign(m)
			if err != nil {
				continue
			}
			if tamMask&(1<<uint(j)) != 0 {
				sig = tamperHex(sig)
				tr.Fault("mint_signature_forged")
			}
			sigs = append(sigs, sigJSON{ID: a.id, Sig: sig})
			if dupMask&(1<<uint(j)) != 0 {
				sigs = append(sigs, sigJSON{ID: a.id, Sig: sig})
				tr.Fault("mint_signature_duplicated")
			}
		}
		if signedTamper != 0 && len(sigs) > 0 {
			tr.Fault("mint_signatures_over_different_payload")
		}
		switch st.Int(7, 0) % 3 {
		case 1: // foreign: a key that was never registered, under its own id
			f := wl.foreign(w, 100+int(st.Int(3, 0))%3)
			if s, err := f.keys.Sign(msg); err == nil {
				sigs = append(sigs, sigJSON{ID: f.id, Sig: s})
				tr.Fault("mint_signature_foreign")
			}
		case 2: // foreign key under a registered id
			if len(idx) > 0 {
				f := wl.foreign(w, 100+int(st.Int(3, 0))%3)
				if s, err := f.keys.Sign(msg); err == nil {
					sigs = append(sigs, sigJSON{ID: wl.auths[idx[0]].id, Sig: s})
					tr.Fault("mint_signature_foreign_key_registered_id")
				}
			}
		}
		if v := st.Int(11, 0); v > 0 && len(idx) > 0 {
			a := wl.auths[idx[int(st.Int(3, 0))%len(idx)]]
			if sig, err := a.keys.Sign(msg); err == nil {
				if v >= 8 {
					sigs = nil
				} else {
					// drop this authorizer's other entries: only the case variants remain for it
					kept := sigs[:0]
					for _, e := range sigs {
						if e.ID != a.id {
							kept = append(kept, e)
						}
					}
					sigs = kept
				}
				for c := 0; c < 2+int(v%5); c++ {
					sigs = append(sigs, sigJSON{ID: a.id, Sig: hexCase(sig, c)})
				}
				tr.Fault("mint_same_authorizer_repeated_hexcase")
			}
		}
		// seeded order
		or := sim.NewRNG(uint64(st.Int(9, 1)))
		or.Shuffle(len(sigs), func(i, k int) { sigs[i], sigs[k] = sigs[k], sigs[i] })
		in := mintJSON{TxnID: txid, Amount: int64(amount), Nonce: nonce, Sigs: sigs, Receiver: receiver}
		if sigs == nil {
			in.Sigs = []sigJSON{}
		}
		o := call(r, from, ledger.AddrZCN, "mint", in, "", 0, 0)
		outcome("mint", o)
		if o.Class == ledger.Success {
			wl.usedNonces = append(wl.usedNonces, nonce)
			if nonce == wl.nextNonce {
				wl.nextNonce++
			}
		}
	}
}

func (b *bridgeWL) foreign(w *ledger.World, j int) *authz {
	ks := wkit.NewKeys(w.Cfg.Scheme, sim.NewRNG(w.Seed).Child("keys").Child(fmt.Sprintf("foreign/%d", j)))
	id, _ := encryption.GetClientIDFromPublicKey(ks.GetPublicKey())
	return &authz{keys: ks, pk: ks.GetPublicKey(), id: id}
}

func indexOf(a []int, v int) int {
	for i, x := range a {
		if x == v {
			return i
		}
	}
	return 0
}

// hexCase writes the same hex string in another letter case: variant 0 lower, 1 upper, others mixed.
func hexCase(s string, variant int) string {
	b := []byte(strings.ToLower(s))
	for i := range b {
		if b[i] < 'a' || b[i] > 'f' {
			continue
		}
		if variant == 1 || (variant > 1 && (i+variant)%(variant%3+2) == 0) {
			b[i] -= 'a' - 'A'
		}
	}
	return string(b)
}

// tamperHex flips one hex digit in the middle of a signature.
func tamperHex(s string) string {
	if len(s) < 4 {
		return s + "00"
	}
	b := []byte(s)
	i := len(b) / 2
	if b[i] == '0' {
		b[i] = '1'
	} else {
		b[i] = '0'
	}
	return string(b)
}

// ---- C19 oracle -----------------------------------------------------------------------------------

type burnOracle struct {
	count map[string]int64 // successful burns per ethereum address
}

func newBurnOracle() *burnOracle { return &burnOracle{count: map[string]int64{}} }

func (bo *burnOracle) AfterBlock(w *ledger.World, bc *ledger.BlockCtx) {}

func userNonce(b []byte) int64 {
	if len(b) == 0 {
		return 0
	}
	un := &zcnsc.UserNode{}
	if _, err := un.UnmarshalMsg(b); err != nil {
		return -1
	}
	return un.BurnNonce
}

func (bo *burnOracle) AfterTxn(w *ledger.World, bc *ledger.BlockCtx, o *ledger.Outcome) {
	if o.Class == ledger.Rejected {
		return
	}
	t := o.Txn
	d := deltasOf(w, o)
	isBurn := isSC(t, ledger.AddrZCN, "burn")
	// burn nonces only move in successful burns
	var userChanged []string
	for k := range d.recs {
		if strings.HasPrefix(k, bridgeUserPrefix) {
			userChanged = append(userChanged, k)
		}
	}
	if !isBurn || o.Class != ledger.Success {
		for _, k := range userChanged {
			violate(w, "C19", "nonce", "C19/burn-nonce-changed-without-successful-burn/"+t.FunctionName+"/"+o.Class, "user node %s changed by %s (%s)", k, t.FunctionName, o.Class)
		}
		if isBurn && o.Class == ledger.Chargeable {
			// nothing may change besides fee and nonce of the sender
			if d.of(ledger.AddrZCN).Sign() != 0 {
				violate(w, "C19", "refused", "C19/refused-burn-moved-tokens", "bridge wallet changed by %s in a refused burn", d.of(ledger.AddrZCN))
			}
			if c := new(big.Int).Add(d.of(t.ClientID), feeOf(w, t)); c.Sign() != 0 {
				violate(w, "C19", "refused", "C19/refused-burn-moved-tokens", "burner changed by %s (fee excluded) in a refused burn", c)
			}
			w.Tr.Probe("oracle_refused_burn_checked")
		}
		return
	}
	w.Tr.Probe("oracle_burn_checked")
	var in struct {
		Eth string `json:"ethereum_address"`
	}
	_ = json.Unmarshal(t.SmartContractData.InputData, &in)
	gn := bridgeGlobal(bc)
	val := bigU(uint64(t.Value))
	if in.Eth == "" {
		violate(w, "C19", "accept", "C19/burn-without-address-accepted", "burn of %s without a target address succeeded", val)
		return
	}
	if gn != nil && uint64(t.Value) < uint64(gn.MinBurnAmount) {
		violate(w, "C19", "accept", "C19/burn-below-minimum-accepted", "burn of %s succeeded, minimum %d", val, uint64(gn.MinBurnAmount))
	}
	if c := new(big.Int).Add(d.of(t.ClientID), feeOf(w, t)); new(big.Int).Neg(c).Cmp(val) != 0 {
		violate(w, "C19", "transfer", "C19/burner-debit-differs-from-value", "burner changed by %s (fee excluded), value %s", c, val)
	}
	if d.of(ledger.AddrZCN).Cmp(val) != 0 {
		violate(w, "C19", "transfer", "C19/bridge-wallet-credit-differs-from-value", "bridge wallet changed by %s, value %s", d.of(ledger.AddrZCN), val)
	}
	if oth := d.others(t.ClientID, ledger.AddrZCN, ledger.AddrMiner); len(oth) > 0 {
		violate(w, "C19", "transfer", "C19/burn-changed-third-account", "account %s changed by %s", oth[0], d.of(oth[0]))
	}
	key := bridgeUserKey(in.Eth)
	ch, ok := d.recs[key]
	if !ok {
		violate(w, "C19", "nonce", "C19/burn-nonce-not-advanced", "user node of %s did not change in a successful burn", in.Eth)
	} else {
		on, nn := userNonce(ch.Old), userNonce(ch.New)
		if nn != on+1 {
			violate(w, "C19", "nonce", "C19/burn-nonce-not-advanced-by-one", "burn nonce of %s: %d -> %d", in.Eth, on, nn)
		}
		bo.count[in.Eth]++
		if nn != bo.count[in.Eth] {
			violate(w, "C19", "nonce", "C19/burn-nonce-differs-from-number-of-burns", "burn nonce of %s is %d after %d successful burns", in.Eth, nn, bo.count[in.Eth])
		}
		if bo.count[in.Eth] > 1 {
			w.Tr.Probe("oracle_repeated_address_burn")
		}
	}
	for k := range d.recs {
		if k != key {
			violate(w, "C19", "records", "C19/burn-changed-other-record", "record %q changed by a burn to %s", k, in.Eth)
			break
		}
	}
}

// ---- C18 oracle -----------------------------------------------------------------------------------

type mintOracle struct {
	minted map[int64]string // nonce -> transaction hash of the successful mint
}

func newMintOracle() *mintOracle { return &mintOracle{minted: map[int64]string{}} }

func (mo *mintOracle) AfterBlock(w *ledger.World, bc *ledger.BlockCtx) {}

func (mo *mintOracle) AfterTxn(w *ledger.World, bc *ledger.BlockCtx, o *ledger.Outcome) {
	if o.Class == ledger.Rejected {
		return
	}
	t := o.Txn
	d := deltasOf(w, o)
	isMint := isSC(t, ledger.AddrZCN, "mint")
	zd := d.of(ledger.AddrZCN)
	if !isMint || o.Class != ledger.Success {
		// the bridge wallet pays out only in mints (and stake unlocks / reward collection, not part of this workload's checks)
		if zd.Sign() < 0 && t.ToClientID == ledger.AddrZCN && t.FunctionName != "delete-from-delegate-pool" && t.FunctionName != "collect-rewards" {
			violate(w, "C18", "wallet", "C18/bridge-wallet-debited-outside-mint/"+t.FunctionName+"/"+o.Class, "bridge wallet lost %s in %s", new(big.Int).Neg(zd), t.FunctionName)
		}
		return
	}
	w.Tr.Probe("oracle_mint_checked")
	var in mintJSON
	if err := json.Unmarshal(t.SmartContractData.InputData, &in); err != nil {
		violate(w, "C18", "payload", "C18/undecodable-mint-accepted", "mint payload does not decode: %v", err)
		return
	}
	amount := uint64(in.Amount)
	// the configuration and the registry the mint ran against: the state before the
	// transaction for records it did not change (a mint changes neither)
	gn := bridgeGlobal(bc)
	if gn == nil {
		return
	}
	n := bridgeAuthCount(bc)
	if in.Receiver != t.ClientID {
		violate(w, "C18", "receiver", "C18/minted-for-submitter-other-than-receiver", "receiving client %s, submitter %s", in.Receiver, t.ClientID)
	}
	msg := mintMessage(in.TxnID, amount, in.Nonce, in.Receiver)
	valid := map[string]bool{}
	for _, s := range in.Sigs {
		an := bridgeAuthorizer(bc, s.ID)
		if an == nil || an.PublicKey == "" {
			continue
		}
		ss := encryption.GetSignatureScheme(w.Cfg.Scheme)
		if err := ss.SetPublicKey(an.PublicKey); err != nil {
			continue
		}
		if ok, err := ss.Verify(s.Sig, msg); ok && err == nil {
			valid[s.ID] = true
		}
	}
	need := gn.PercentAuthorizers * float64(n)
	switch {
	case n == 0:
		violate(w, "C18", "quorum", "C18/minted-without-registered-authorizers", "mint succeeded with no registered authorizer")
	case float64(len(valid)) >= need-1e-9:
		w.Tr.Probe("oracle_quorum_ok")
	case len(valid) >= int(math.RoundToEven(need)) && len(valid) >= 1:
		violate(w, "C18", "quorum", "C18/minted-below-configured-fraction/threshold-rounded-down",
			"%d distinct registered authorizers validly signed, %d registered, percent_authorizers %v requires %v (the contract rounds to %d)", len(valid), n, gn.PercentAuthorizers, need, int(math.RoundToEven(need)))
	default:
		violate(w, "C18", "quorum", "C18/minted-without-quorum", "%d distinct registered authorizers validly signed (of %d signature entries), %d registered, percent_authorizers %v", len(valid), len(in.Sigs), n, gn.PercentAuthorizers)
	}
	if prev, dup := mo.minted[in.Nonce]; dup {
		violate(w, "C18", "nonce", "C18/nonce-minted-twice", "nonce %d minted in %s and again in %s", in.Nonce, prev, t.Hash)
	}
	mo.minted[in.Nonce] = t.Hash
	// amounts
	got := new(big.Int).Add(d.of(t.ClientID), feeOf(w, t))
	fee := new(big.Int).Sub(bigU(amount), got)
	if fee.Sign() < 0 || fee.Cmp(bigU(uint64(gn.MaxFee))) > 0 {
		violate(w, "C18", "amount", "C18/receiver-credit-outside-amount-minus-fee", "requested %d, receiver credited %s, max fee %d", amount, got, uint64(gn.MaxFee))
	}
	if new(big.Int).Neg(zd).Cmp(got) != 0 {
		violate(w, "C18", "amount", "C18/bridge-wallet-debit-differs-from-receiver-credit", "bridge wallet changed by %s, receiver credited %s", zd, got)
	}
	if oth := d.others(t.ClientID, ledger.AddrZCN, ledger.AddrMiner); len(oth) > 0 {
		violate(w, "C18", "amount", "C18/mint-changed-third-account", "account %s changed by %s", oth[0], d.of(oth[0]))
	}
	// the fee is credited to an authorizer: exactly one authorizer stake pool's rewards grow by the fee
	credited := new(big.Int)
	pools := 0
	for k, ch := range d.recs {
		if !strings.HasPrefix(k, authStakeKey("")) {
			continue
		}
		id := strings.TrimPrefix(k, authStakeKey(""))
		g := new(big.Int).Sub(poolRewards(ch.New), poolRewards(ch.Old))
		if g.Sign() != 0 {
			pools++
			credited.Add(credited, g)
			if bridgeAuthorizer(bc, id) == nil {
				violate(w, "C18", "fee", "C18/fee-credited-to-unregistered-authorizer", "stake pool %s is not of a registered authorizer", id)
			}
		}
	}
	if fee.Sign() > 0 && (credited.Cmp(fee) != 0 || pools != 1) {
		violate(w, "C18", "fee", "C18/fee-not-credited-to-an-authorizer", "receiver paid a fee of %s, authorizer stake pools were credited %s (%d pools)", fee, credited, pools)
	} else if fee.Sign() > 0 {
		w.Tr.Probe("oracle_fee_credited")
	}
}

var burnScenario = ledger.Scenario{
	Prop:    "C19",
	Weights: map[string]int{"send": 2, "call": 1, "pour": 0, "data": 0, "replay": 3, "block": 3, "clock": 1},
	Lo:      3, Hi: 12,
	GenExtra: func(r *sim.RNG, p *sim.Plan, tier string) {
		p.Steps = mix(r.Child("mix"), p.Steps, genBridge(r.Child("bridge"), p, tier, true, r.Intn(3) == 0))
		genNodeFault(r.Child("nodefault"), p, tier)
	},
	Setup: func(w *ledger.World, r *ledger.Runner) []ledger.Observer {
		setupRaw(w, r)
		setupBridge(w, r)
		bt := newBurnTracker()
		setupNodeFault(w, r, bt)
		return []ledger.Observer{newBurnOracle(), bt}
	},
}

var mintScenario = ledger.Scenario{
	Prop:    "C18",
	Weights: map[string]int{"send": 2, "call": 1, "pour": 0, "data": 0, "replay": 3, "block": 3, "clock": 1},
	Lo:      3, Hi: 12,
	GenExtra: func(r *sim.RNG, p *sim.Plan, tier string) {
		p.Steps = mix(r.Child("mix"), p.Steps, genBridge(r.Child("bridge"), p, tier, r.Intn(3) == 0, true))
	},
	Setup: func(w *ledger.World, r *ledger.Runner) []ledger.Observer {
		setupRaw(w, r)
		setupBridge(w, r)
		return []ledger.Observer{newMintOracle()}
	},
}

func init() {
	sim.Register(&sim.Check{
		ID: "C19", Title: "Bridge burns lock the value and advance the burn nonce by one", World: "ledger",
		Gen: burnScenario.Gen, Exec: burnScenario.Exec,
		Quick: sim.Budget{Runs: 400, WallS: 75}, Thorough: sim.Budget{Runs: 40000, WallS: 700},
		LevelText: "seeded search over burn histories: several burners, values around the configured minimum (0, min-1, min, min+1, half / all / more than the balance), repeated, new, empty, missing and malformed target addresses, min_burn varied through the real update-global-config owner transaction, replays of applied transactions; in half of the seeds every block is persisted and one or two plan-controlled state faults hit the burn of a client that already burned to the address, after the head was rebased on the persistent node DB with a fresh state cache: the leaf of the address' user node dropped from the simulated disk (put back afterwards), and a one-shot disk read error on the first node read of the user-node lookup (reported to the contract as a missing node); " +
			"on the MPT diff of every burn: burner -value, bridge wallet +value, the address' user node nonce +1 and equal to the number of successful burns for that address, nothing else; refused burns and every other transaction leave all burn nonces and the bridge wallet untouched",
		LevelNote: "the per-address counter of the oracle is its own (number of successful burns it observed), compared with the nonce stored in the trie",
		Technique: "deterministic simulation: seeded burn histories, allowed-diff oracle on the real trie",
		DesignRef: "6/C19", Regime: "single-threaded event loop", Components: ledger.W1Components,
	})
	sim.Register(&sim.Check{
		ID: "C18", Title: "Bridge mints need a quorum of authorizers and each nonce mints once", World: "ledger",
		Gen: mintScenario.Gen, Exec: mintScenario.Exec,
		Quick: sim.Budget{Runs: 360, WallS: 75}, Thorough: sim.Budget{Runs: 30000, WallS: 1000},
		LevelText: "seeded search over mint histories: 1-7 authorizers registered through add-authorizer (owner) with real seeded keys of the chain's client scheme, staked through add-to-delegate-pool (some left unstaked), some deleted again; mint payloads signed by seeded subsets, with forged (bit-flipped) signatures, signatures over a different amount / nonce / receiver / burn reference, duplicated entries, another authorizer's key, never-registered keys (own id or a registered id), wrong receiver, fresh / replayed / arbitrary nonces, amounts around min_mint and max_fee, percent_authorizers and max_fee varied through update-global-config; " +
			"the oracle re-verifies every signature with the real scheme against the authorizer records in the trie and checks quorum, submitter == receiver, once-per-nonce over the history, receiver +amount-fee with 0 <= fee <= max_fee, bridge wallet -(amount-fee), fee added to the rewards of exactly one registered authorizer's stake pool",
		LevelNote: "quorum is checked as count >= percent_authorizers*registered (no rounding); a mint that only passes because the contract rounds the threshold to the nearest integer is reported under its own signature",
		Technique: "deterministic simulation: seeded signature-set/nonce histories, oracle re-verifying signatures with the shipped encryption package on the real trie",
		DesignRef: "6/C18", Regime: "single-threaded event loop", Components: ledger.W1Components,
	})
}

var _ = transaction.TxnTypeSmartContract

// genMintRun is a long run of clean mints (all registered authorizers sign, fresh nonces) spread over
// several blocks, with an occasional replayed nonce: the minted-nonce partitions fill up and overflow
// (partition size 5), so the pack / new-partition paths run under every core oracle (C06: the same
// block executed from a warm and from a cold state cache).
func genMintRun(r *sim.RNG, p *sim.Plan, tier string) []sim.Step {
	if p.CfgInt("funding", 0) < 1e13 {
		p.Cfg["funding"] = 1e13
	}
	var out []sim.Step
	// 70 % of authorizers must sign, fee 1, minimum mint/burn 1 coin unit, sent by the owner
	out = append(out, sim.Step{Op: "br.cfg", A: 0, I: []int64{70, 1, 1, 1, 0}})
	na := 1 + r.Intn(4)
	for j := 0; j < na; j++ {
		out = append(out, sim.Step{Op: "br.auth", A: r.Intn(8), I: []int64{int64(j), int64(r.Intn(6)), int64(1 + r.Intn(4)), 0, 0}})
	}
	for j := 0; j < na; j++ {
		out = append(out, sim.Step{Op: "br.stake", A: r.Intn(5), I: []int64{int64(j), 0}})
	}
	out = append(out, sim.Step{Op: "block", I: []int64{0, 0}})
	n := r.Range(7, 16)
	if tier == "thorough" {
		n = r.Range(7, 40)
	}
	for i := 0; i < n; i++ {
		nonceKind := int64(r.Pick([]int{12, 1}))
		out = append(out, sim.Step{Op: "br.mint", A: r.Intn(5), I: []int64{0, int64(r.Pick([]int{3, 1, 2})), nonceKind, int64(r.Intn(64)), 127, 0, 0, 0, 0, int64(r.Intn(1 << 20)), 0, 0}})
		if r.Intn(3) == 0 {
			out = append(out, sim.Step{Op: "block", I: []int64{0, int64(r.Intn(2))}})
		}
	}
	return out
}
