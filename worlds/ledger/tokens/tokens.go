// Package tokens holds the workloads and oracles for the faucet, vesting,
// bridge (zcnsc) and multisig contracts on top of the ledger world (W1):
// checks C17 (faucet limits), C16 (vesting schedule), C19 (bridge burn),
// C18 (bridge mint quorum) and C21 (multisig execution), plus the "tokens"
// workload over which the core oracles (C01-C05, C07, C08) run.
//
// All state is set up through real transactions; the oracles are written from
// the property statements and read the real trie (MPT leaf diff of every
// transaction, records decoded generically by field name where the contract
// types are unexported).
package tokens

import (
	"fmt"
	"math/big"
	"sort"
	"strconv"
	"strings"

	"0chain.net/chaincore/transaction"
	"0chain.net/core/encryption"
	"github.com/0chain/common/core/util"
	"github.com/tinylib/msgp/msgp"

	"verif/sim"
	"verif/worlds/ledger"
)

// ---- generic decoding of contract records ---------------------------------------------------------

// decode turns msgp bytes into a generic value (maps keyed by Go field name).
func decode(b []byte) map[string]any {
	if len(b) == 0 {
		return nil
	}
	v, _, err := msgp.ReadIntfBytes(b)
	if err != nil {
		return nil
	}
	m, _ := v.(map[string]any)
	return m
}

// rawRecord reads the record stored under a contract key in the block under assembly.
func rawRecord(bc *ledger.BlockCtx, key string) map[string]any {
	b, err := bc.State.GetNodeValueRaw(util.Path(encryption.Hash(key)))
	if err != nil {
		return nil
	}
	return decode(b)
}

func fU(m map[string]any, k string) uint64 {
	switch x := m[k].(type) {
	case uint64:
		return x
	case int64:
		return uint64(x)
	case uint32:
		return uint64(x)
	case int32:
		return uint64(x)
	case int:
		return uint64(x)
	case uint:
		return uint64(x)
	case uint8:
		return uint64(x)
	case uint16:
		return uint64(x)
	case int8:
		return uint64(x)
	case int16:
		return uint64(x)
	case float64:
		return uint64(x)
	}
	return 0
}

func fI(m map[string]any, k string) int64 { return int64(fU(m, k)) }

func fS(m map[string]any, k string) string {
	switch x := m[k].(type) {
	case string:
		return x
	case []byte:
		return string(x)
	}
	return ""
}

func fM(m map[string]any, k string) map[string]any {
	x, _ := m[k].(map[string]any)
	return x
}

func fA(m map[string]any, k string) []any {
	x, _ := m[k].([]any)
	return x
}

func fSS(m map[string]any, k string) []string {
	var out []string
	for _, e := range fA(m, k) {
		switch x := e.(type) {
		case string:
			out = append(out, x)
		case []byte:
			out = append(out, string(x))
		}
	}
	return out
}

// ---- account deltas -------------------------------------------------------------------------------

type deltas struct {
	by   map[string]*big.Int
	accs map[string]ledger.AccountDelta
	recs map[string]ledger.LeafChange
}

func deltasOf(w *ledger.World, o *ledger.Outcome) *deltas {
	d := &deltas{by: map[string]*big.Int{}, accs: map[string]ledger.AccountDelta{}}
	accts, recs := w.SplitChanges(o.Changes())
	for _, a := range accts {
		d.by[a.ID] = a.BalDelta()
		d.accs[a.ID] = a
	}
	d.recs = recs
	return d
}

func (d *deltas) of(id string) *big.Int {
	if v, ok := d.by[id]; ok {
		return v
	}
	return new(big.Int)
}

// pre returns the balance an account had before the transaction when the
// account changed; ok=false when it did not change.
func (d *deltas) pre(id string) (uint64, bool) {
	a, ok := d.accs[id]
	if !ok {
		return 0, false
	}
	if a.Old == nil {
		return 0, true
	}
	return uint64(a.Old.Balance), true
}

func bigU(v uint64) *big.Int { return new(big.Int).SetUint64(v) }

// feeOf is the fee the chain charges for an applied transaction.
func feeOf(w *ledger.World, t *transaction.Transaction) *big.Int {
	if w.C.ChainConfig.IsFeeEnabled() {
		return bigU(uint64(t.Fee))
	}
	return new(big.Int)
}

// others returns the ids (sorted) of changed accounts not in the given set whose balance changed.
func (d *deltas) others(known ...string) []string {
	k := map[string]bool{}
	for _, s := range known {
		k[s] = true
	}
	var out []string
	for id, v := range d.by {
		if !k[id] && v.Sign() != 0 {
			out = append(out, id)
		}
	}
	sort.Strings(out)
	return out
}

// ---- plan helpers ---------------------------------------------------------------------------------

// mix interleaves extra steps into the base steps keeping both relative orders.
func mix(r *sim.RNG, base, extra []sim.Step) []sim.Step {
	out := make([]sim.Step, 0, len(base)+len(extra))
	i, j := 0, 0
	for i < len(base) || j < len(extra) {
		lb, le := len(base)-i, len(extra)-j
		if le == 0 || (lb > 0 && r.Intn(lb+le) < lb) {
			out = append(out, base[i])
			i++
		} else {
			out = append(out, extra[j])
			j++
		}
	}
	return out
}

// coinStr renders a coin amount as the ZCN decimal string the settings
// transactions expect ("1.5" = 1.5e10 coins).
func coinStr(c uint64) string {
	whole, frac := c/1e10, c%1e10
	if frac == 0 {
		return strconv.FormatUint(whole, 10)
	}
	s := fmt.Sprintf("%d.%010d", whole, frac)
	return strings.TrimRight(s, "0")
}

func violate(w *ledger.World, prop, oracle, sig, format string, a ...any) {
	w.Tr.Violate(&sim.Violation{Prop: prop, Oracle: oracle, Sig: sig, Detail: fmt.Sprintf(format, a...)})
}

func isSC(t *transaction.Transaction, addr, fn string) bool {
	return t.TransactionType == transaction.TxnTypeSmartContract && t.ToClientID == addr && t.FunctionName == fn
}

func errStr(o *ledger.Outcome) string {
	if o.Err != nil {
		return o.Err.Error()
	}
	if o.Class == ledger.Chargeable {
		return o.Txn.TransactionOutput
	}
	return ""
}

// call submits a smart-contract transaction from an account with the expected nonce.
func call(r *ledger.Runner, from, to, fn string, input any, raw string, value uint64, feeKind int64) *ledger.Outcome {
	r.EnsureBlock()
	spec := ledger.TxnSpec{From: from, To: to, Type: transaction.TxnTypeSmartContract, Name: fn, Input: input, Raw: raw,
		Value: int64(value), Fee: r.ResolveFee(feeKind, from), Nonce: r.ResolveNonce(ledger.NExpected, from)}
	return r.Submit(r.W.MakeTxn(spec))
}

// setupRaw registers "tk.raw": a hand-written call (contract, function, raw JSON input) from account #A
// (A < 0: the contracts' owner) with value I[0]. Plans never generate it; it exists for hand-written replays.
func setupRaw(w *ledger.World, r *ledger.Runner) {
	r.Ops["tk.raw"] = func(r *ledger.Runner, st sim.Step) {
		addr := map[string]string{"vesting": ledger.AddrVesting, "faucet": ledger.AddrFaucet, "zcn": ledger.AddrZCN, "multisig": ledger.AddrMultisig}[st.Str(0, "vesting")]
		if addr == "" {
			return
		}
		from := w.OwnerID
		if st.A >= 0 {
			from, _ = w.Account(st.A)
		}
		call(r, from, addr, st.Str(1, ""), nil, st.Str(2, "{}"), uint64(st.Int(0, 0)), 0)
	}
}

// ---- the mixed "tokens" workload for the core oracles ---------------------------------------------

func init() {
	ledger.RegisterWorkload(&ledger.Workload{
		Name: "tokens",
		GenExtra: func(r *sim.RNG, p *sim.Plan, tier string) {
			// one or two of the five families per seed, so histories stay deep
			fams := r.Perm(5)[:1+r.Intn(2)]
			var extra []sim.Step
			for _, f := range fams {
				switch f {
				case 0:
					extra = append(extra, genFaucet(r.Child("faucet"), p, tier)...)
				case 1:
					extra = append(extra, genVesting(r.Child("vesting"), p, tier)...)
				case 2:
					extra = append(extra, genBridge(r.Child("bridge"), p, tier, true, true)...)
				case 3:
					extra = append(extra, genMultisig(r.Child("multisig"), p, tier)...)
				case 4:
					extra = append(extra, genMintRun(r.Child("mintrun"), p, tier)...)
				}
			}
			if p.CfgInt("funding", 0) < 1e13 {
				p.Cfg["funding"] = 1e13
			}
			p.Steps = mix(r.Child("mix"), p.Steps, extra)
		},
		Setup: func(w *ledger.World, r *ledger.Runner) {
			setupRaw(w, r)
			setupFaucet(w, r)
			setupVesting(w, r)
			setupBridge(w, r)
			setupMultisig(w, r)
		},
	})
}
