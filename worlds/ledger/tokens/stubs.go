package tokens

import (
	"verif/sim"
	"verif/worlds/ledger"
)

func genBridge(r *sim.RNG, p *sim.Plan, tier string, burn, mint bool) []sim.Step { return nil }
func genMultisig(r *sim.RNG, p *sim.Plan, tier string) []sim.Step { return nil }
func setupBridge(w *ledger.World, r *ledger.Runner)                {}
func setupMultisig(w *ledger.World, r *ledger.Runner)              {}
