package tokens

import (
	"encoding/json"
	"fmt"
	"math/big"
	"strings"

	"0chain.net/chaincore/transaction"
	"0chain.net/core/common"
	"0chain.net/core/encryption"
	"0chain.net/smartcontract/vestingsc"
	"github.com/0chain/common/core/util"

	"verif/sim"
	"verif/worlds/ledger"
)

// ---- C16: vesting ---------------------------------------------------------------------------------

const vestingPoolPrefix = vestingsc.ADDRESS + ":vestingpool:"

var vestingConfigKey = vestingsc.ADDRESS + encryption.Hash("vestingsc_config")

type vDest struct {
	ID     string
	Amount uint64
	Vested uint64
}

type vPool struct {
	ID      string
	Balance uint64
	Start   int64
	Expire  int64
	Owner   string
	Dests   []vDest
}

func parsePool(b []byte) *vPool {
	m := decode(b)
	if m == nil {
		return nil
	}
	tp := fM(fM(m, "ZcnPool"), "TokenPool")
	p := &vPool{ID: fS(tp, "ID"), Balance: fU(tp, "Balance"), Start: fI(m, "StartTime"), Expire: fI(m, "ExpireAt"), Owner: fS(m, "ClientID")}
	for _, e := range fA(m, "Destinations") {
		dm, _ := e.(map[string]any)
		if dm == nil {
			continue
		}
		p.Dests = append(p.Dests, vDest{ID: fS(dm, "ID"), Amount: fU(dm, "Amount"), Vested: fU(dm, "Vested")})
	}
	return p
}

func readPool(bc *ledger.BlockCtx, id string) *vPool {
	b, err := bc.State.GetNodeValueRaw(util.Path(encryption.Hash(id)))
	if err != nil || len(b) == 0 {
		return nil
	}
	return parsePool(b)
}

type vConf struct {
	MinLock     uint64
	MinDur      int64 // seconds
	MaxDur      int64
	MaxDest     int
	MaxDescrLen int
}

func readVestingConf(bc *ledger.BlockCtx) vConf {
	m := rawRecord(bc, vestingConfigKey)
	c := vConf{MinLock: 1e8, MinDur: 120, MaxDur: 7200, MaxDest: 3, MaxDescrLen: 20}
	if m == nil {
		return c
	}
	c.MinLock = fU(m, "MinLock")
	c.MinDur = fI(m, "MinDuration") / 1e9
	c.MaxDur = fI(m, "MaxDuration") / 1e9
	c.MaxDest = int(fI(m, "MaxDestinations"))
	c.MaxDescrLen = int(fI(m, "MaxDescriptionLength"))
	return c
}

// sched is ceil(amount * elapsed / duration) with elapsed clamped to [0, duration].
func sched(amount uint64, start, expire, now int64) *big.Int {
	dur := expire - start
	el := now - start
	if el < 0 {
		el = 0
	}
	if el >= dur || dur <= 0 {
		return bigU(amount)
	}
	n := new(big.Int).Mul(bigU(amount), big.NewInt(el))
	d := big.NewInt(dur)
	q, m := new(big.Int).DivMod(n, d, new(big.Int))
	if m.Sign() != 0 {
		q.Add(q, big.NewInt(1))
	}
	return q
}

// schedFloor is the linear schedule itself, rounded down: what "never ahead of the linear schedule"
// means for a whole number of tokens.
func schedFloor(amount uint64, start, expire, now int64) *big.Int {
	dur := expire - start
	el := now - start
	if el < 0 {
		el = 0
	}
	if el >= dur || dur <= 0 {
		return bigU(amount)
	}
	n := new(big.Int).Mul(bigU(amount), big.NewInt(el))
	return n.Div(n, big.NewInt(dur))
}

func (p *vPool) leftSum() *big.Int {
	s := new(big.Int)
	for _, d := range p.Dests {
		if d.Amount >= d.Vested {
			s.Add(s, bigU(d.Amount-d.Vested))
		}
	}
	return s
}

// genVesting generates the vesting steps. Everything is symbolic: pools are
// "pool #k mod n of the pools created so far", destinations "#j of that pool",
// clock points relative to the chosen pool's start / expiry.
func genVesting(r *sim.RNG, p *sim.Plan, tier string) []sim.Step {
	// accounts must be able to fund large pools: 2^53 < amounts <= funding
	p.Cfg["funding"] = []int64{1e13, 1e16, 1e17}[r.Pick([]int{3, 3, 4})]
	if p.CfgInt("clients", 4) > 5 {
		p.Cfg["clients"] = 5
	}
	if p.CfgInt("miners", 2) > 2 {
		p.Cfg["miners"] = 2
	}
	p.Cfg["sharders"] = 1
	n := r.Range(15, 60)
	if tier == "thorough" {
		n = r.Range(15, 160)
	}
	var out []sim.Step
	cfg := func() sim.Step {
		maxDest := []int64{1, 3, 8, 20, 25}[r.Pick([]int{1, 2, 3, 6, 1})]
		minDur := []int64{1, 5, 120}[r.Pick([]int{3, 2, 2})]
		maxDur := []int64{10, 7200, 86400 * 365, 86400 * 365 * 30}[r.Pick([]int{2, 3, 2, 1})]
		minLock := []int64{1, 1e8, 1e10}[r.Pick([]int{2, 3, 1})]
		return sim.Step{Op: "vs.cfg", A: r.Intn(8), I: []int64{maxDest, minDur, maxDur, minLock, int64(r.Pick([]int{14, 1}))}}
	}
	add := func() sim.Step {
		nd := 1 + r.Intn(3)
		switch r.Pick([]int{5, 3, 2}) {
		case 1:
			nd = 1 + r.Intn(8)
		case 2:
			nd = 1 + r.Intn(21) // up to 21: one more than the largest valid limit
		}
		// I: nDest, startKind, durKind, amountSeed, extraKind, destSeed, amountProfile
		return sim.Step{Op: "vs.add", A: r.Intn(5), I: []int64{int64(nd), int64(r.Pick([]int{8, 3, 2, 1})), int64(r.Pick([]int{3, 2, 4, 3, 1, 3})),
			int64(r.Intn(1 << 30)), int64(r.Pick([]int{6, 2, 2, 1})), int64(r.Intn(1 << 30)), int64(r.Pick([]int{3, 3, 3, 2})),
			int64(r.Pick([]int{9, 2, 1, 1, 1}))}} // last: bookkeeping fields injected into the destination objects (0 none)
	}
	if r.Intn(4) != 0 {
		out = append(out, cfg())
	}
	// the first pool is a plain valid one (1-3 destinations, starts now, valid duration) so that
	// the operations that follow have a pool to work on in most runs
	f := add()
	f.I[0], f.I[1], f.I[2] = int64(1+r.Intn(3)), 0, int64(r.Pick([]int{2, 2, 3, 2, 0, 2}))
	if f.I[4] == 3 {
		f.I[4] = 0
	}
	out = append(out, f)
	for i := 0; i < n; i++ {
		switch r.Pick([]int{1, 4, 6, 5, 2, 2, 7, 2}) {
		case 0:
			out = append(out, cfg())
		case 1:
			out = append(out, add())
		case 2: // trigger: pool k, caller kind (0 = owner)
			out = append(out, sim.Step{Op: "vs.trigger", A: r.Intn(6), I: []int64{int64(r.Intn(64)), int64(r.Pick([]int{9, 1}))}})
		case 3: // unlock: pool k, who (0 owner, j>0 destination #j-1, 99 outsider)
			who := int64(r.Intn(22))
			if r.Intn(12) == 0 {
				who = 99
			}
			out = append(out, sim.Step{Op: "vs.unlock", A: r.Intn(6), I: []int64{int64(r.Intn(64)), who}})
		case 4: // stop: pool k, destination j, caller kind
			out = append(out, sim.Step{Op: "vs.stop", A: r.Intn(6), I: []int64{int64(r.Intn(64)), int64(r.Intn(21)), int64(r.Pick([]int{9, 1}))}})
		case 5: // delete: pool k, caller kind
			out = append(out, sim.Step{Op: "vs.delete", A: r.Intn(6), I: []int64{int64(r.Intn(64)), int64(r.Pick([]int{9, 1}))}})
		case 6: // clock relative to pool k
			out = append(out, sim.Step{Op: "vs.clock", I: []int64{int64(r.Intn(64)), int64(r.Pick([]int{2, 2, 3, 3, 3, 2, 3, 2, 1, 2}))}})
		case 7:
			out = append(out, sim.Step{Op: "block", I: []int64{0, int64(r.Intn(2))}})
		}
	}
	return out
}

type vestingWL struct {
	pools []string // ids of the pools created so far (deleted ones stay: operations on them are faults)
}

func setupVesting(w *ledger.World, r *ledger.Runner) {
	tr := w.Tr
	wl := &vestingWL{}
	first := map[string]bool{}
	probeFirst := func(name string) {
		if !first[name] {
			first[name] = true
			tr.Probe("first_" + name)
		}
		tr.Probe(name)
	}
	pick := func(k int64) (string, *vPool) {
		if len(wl.pools) == 0 {
			return vestingPoolPrefix + encryption.Hash("no-such-pool"), nil
		}
		// four times out of five "pool #k" counts the pools that still exist
		if k%5 != 0 {
			var live []string
			for _, id := range wl.pools {
				if readPool(r.BC, id) != nil {
					live = append(live, id)
				}
			}
			if len(live) > 0 {
				id := live[int(k)%len(live)]
				return id, readPool(r.BC, id)
			}
		}
		id := wl.pools[int(k)%len(wl.pools)]
		return id, readPool(r.BC, id)
	}
	caller := func(vp *vPool, kind int64, a int) string {
		if kind == 0 && vp != nil {
			return vp.Owner
		}
		id, _ := w.Account(a)
		if vp != nil && id != vp.Owner {
			tr.Fault("wrong_caller")
		}
		return id
	}
	outcome := func(name string, o *ledger.Outcome) {
		switch o.Class {
		case ledger.Success:
			probeFirst(name + "_ok")
		case ledger.Chargeable:
			tr.Fault(name + "_refused")
		default:
			tr.Fault(name + "_rejected")
		}
	}
	r.Ops["vs.cfg"] = func(r *ledger.Runner, st sim.Step) {
		from := w.OwnerID
		if st.Int(4, 0) != 0 {
			from, _ = w.Account(st.A)
			tr.Fault("settings_wrong_caller")
		}
		fields := map[string]string{
			"max_destinations": fmt.Sprint(st.Int(0, 3)), "min_duration": fmt.Sprintf("%ds", st.Int(1, 120)), "max_duration": fmt.Sprintf("%ds", st.Int(2, 7200)),
			"min_lock": coinStr(uint64(st.Int(3, 1e8))),
		}
		o := call(r, from, ledger.AddrVesting, "vestingsc-update-settings", map[string]any{"fields": fields}, "", 0, 0)
		if o.Class == ledger.Success {
			probeFirst("vesting_settings_updated")
		}
	}
	r.Ops["vs.add"] = func(r *ledger.Runner, st sim.Step) {
		r.EnsureBlock()
		from, _ := w.Account(st.A % max(1, len(w.Clients)))
		conf := readVestingConf(r.BC)
		bal, _, _ := ledger.Balance(r.BC.State, from)
		nd := int(st.Int(0, 1))
		if nd < 1 {
			nd = 1
		}
		var start int64
		switch st.Int(1, 0) % 4 {
		case 0:
			start = 0 // contract default: now
		case 1:
			start = int64(w.Now) + 10
		case 2:
			start = int64(w.Now) + 3600
		case 3:
			start = int64(w.Now) - 1
			tr.Fault("add_start_in_the_past")
		}
		var dur int64
		switch st.Int(2, 0) % 6 {
		case 0:
			dur = conf.MinDur
		case 1:
			dur = conf.MinDur + 1
		case 2:
			dur = (conf.MinDur + conf.MaxDur) / 2
		case 3:
			dur = conf.MaxDur
		case 4:
			dur = conf.MaxDur + 1
			tr.Fault("add_duration_too_long")
		case 5:
			dur = 7919
			if dur > conf.MaxDur {
				dur = conf.MaxDur
			}
			if dur < conf.MinDur {
				dur = conf.MinDur
			}
		}
		if nd > conf.MaxDest {
			tr.Fault("add_too_many_destinations")
		}
		ar := sim.NewRNG(uint64(st.Int(3, 1)))
		dr := sim.NewRNG(uint64(st.Int(5, 1)))
		// amount profile: 0 small, 1 medium, 2 a share of the balance (large), 3 just above 2^53 (float rounding)
		prof := st.Int(6, 0) % 4
		budget := uint64(bal) / 2
		// the destination objects of the request may carry the contract's own bookkeeping
		// fields (vested / last / move): a new pool must start from zero whatever they say
		type dj struct {
			ID     string `json:"id"`
			Amount uint64 `json:"amount"`
			Vested uint64 `json:"vested,omitempty"`
			Last   int64  `json:"last,omitempty"`
			Move   int64  `json:"move,omitempty"`
		}
		inject := st.Int(7, 0) % 5
		var dests []dj
		var want uint64
		for j := 0; j < nd; j++ {
			var amt uint64
			switch prof {
			case 0:
				amt = uint64(1 + ar.Intn(2000))
				if amt%3 == 0 {
					// tiny: most triggers round to zero tokens for such a destination
					amt = 1 + amt%7
				}
			case 1:
				amt = uint64(1e8) + uint64(ar.Int63n(1e11))
			case 2:
				amt = budget/uint64(nd) - uint64(ar.Intn(1000))
			default:
				amt = (1 << 53) + uint64(ar.Intn(64))*2 + 1
				if amt > budget/uint64(nd) {
					amt = budget/uint64(nd) | 1
				}
			}
			if amt == 0 || amt > uint64(bal) {
				amt = 1
			}
			// destination: mostly other accounts; sometimes the owner itself or a repeated destination
			var id string
			switch dr.Pick([]int{120, 5, 5, 1}) {
			case 0:
				id, _ = w.Account(dr.Intn(len(w.Clients) + len(w.Miners) + len(w.Sharders)))
			case 1:
				id = from
			case 3:
				id = "not-a-client-id" // accepted by add although no transfer to it can ever be made
				tr.Fault("add_destination_id_not_a_client_id")
			default:
				if len(dests) > 0 {
					id = dests[dr.Intn(len(dests))].ID
				} else {
					id, _ = w.Account(dr.Intn(len(w.Clients)))
				}
			}
			e := dj{ID: id, Amount: amt}
			switch inject {
			case 1: // part of the amount declared as already vested
				e.Vested = 1 + amt*uint64(1+ar.Intn(9))/10
				if e.Vested > amt {
					e.Vested = amt
				}
			case 2: // everything declared vested, last payment in the past
				e.Vested, e.Last, e.Move = amt, int64(w.Now)-1000, int64(w.Now)-1000
			case 3: // last payment far in the future
				e.Last, e.Move = int64(w.Now)+1e6, int64(w.Now)+1e6
			case 4:
				e.Vested, e.Last, e.Move = 1+amt/2, int64(w.Now)+1e6, int64(w.Now)-1e6
				if e.Vested > amt {
					e.Vested = amt
				}
			}
			dests = append(dests, e)
			want += amt
		}
		value := want
		switch st.Int(4, 0) % 4 {
		case 1:
			value = want + 1
		case 2:
			value = want + uint64(1e10)
		case 3:
			if want > 0 {
				value = want - 1
				tr.Fault("add_underfunded")
			}
		}
		if inject != 0 {
			tr.Fault("add_request_injects_bookkeeping_fields")
		}
		in := map[string]any{"description": "p", "start_time": start, "duration": dur * 1e9, "destinations": dests}
		o := call(r, from, ledger.AddrVesting, "add", in, "", value, 0)
		outcome("vesting_add", o)
		if o.Class == ledger.Success {
			wl.pools = append(wl.pools, vestingPoolPrefix+o.Txn.Hash)
			if nd >= 10 {
				tr.Probe("vesting_add_many_destinations")
			}
			if want > 1<<53 {
				tr.Probe("vesting_add_above_2^53")
			}
			if value > want {
				tr.Probe("vesting_add_with_excess")
			}
		}
	}
	r.Ops["vs.trigger"] = func(r *ledger.Runner, st sim.Step) {
		r.EnsureBlock()
		id, vp := pick(st.Int(0, 0))
		if vp == nil {
			tr.Fault("op_on_deleted_or_missing_pool")
		}
		from := caller(vp, st.Int(1, 0), st.A)
		o := call(r, from, ledger.AddrVesting, "trigger", map[string]any{"pool_id": id}, "", 0, 0)
		outcome("vesting_trigger", o)
		if o.Class == ledger.Success && vp != nil && int64(o.Txn.CreationDate) >= vp.Expire {
			tr.Probe("vesting_trigger_at_or_after_expiry")
		}
	}
	r.Ops["vs.unlock"] = func(r *ledger.Runner, st sim.Step) {
		r.EnsureBlock()
		id, vp := pick(st.Int(0, 0))
		if vp == nil {
			tr.Fault("op_on_deleted_or_missing_pool")
		}
		who := st.Int(1, 0)
		var from string
		switch {
		case vp == nil || who == 99:
			from, _ = w.Account(st.A)
		case who == 0 || len(vp.Dests) == 0:
			from = vp.Owner
		default:
			from = vp.Dests[int(who-1)%len(vp.Dests)].ID
		}
		o := call(r, from, ledger.AddrVesting, "unlock", map[string]any{"pool_id": id}, "", 0, 0)
		if vp != nil && from == vp.Owner {
			outcome("vesting_unlock_owner", o)
		} else {
			outcome("vesting_unlock_destination", o)
		}
	}
	r.Ops["vs.stop"] = func(r *ledger.Runner, st sim.Step) {
		r.EnsureBlock()
		id, vp := pick(st.Int(0, 0))
		if vp == nil {
			tr.Fault("op_on_deleted_or_missing_pool")
		}
		dest, _ := w.Account(int(st.Int(1, 0)))
		if vp != nil && len(vp.Dests) > 0 {
			dest = vp.Dests[int(st.Int(1, 0))%len(vp.Dests)].ID
		}
		from := caller(vp, st.Int(2, 0), st.A)
		o := call(r, from, ledger.AddrVesting, "stop", map[string]any{"pool_id": id, "destination": dest}, "", 0, 0)
		outcome("vesting_stop", o)
	}
	r.Ops["vs.delete"] = func(r *ledger.Runner, st sim.Step) {
		r.EnsureBlock()
		id, vp := pick(st.Int(0, 0))
		if vp == nil {
			tr.Fault("op_on_deleted_or_missing_pool")
		}
		from := caller(vp, st.Int(1, 0), st.A)
		o := call(r, from, ledger.AddrVesting, "delete", map[string]any{"pool_id": id}, "", 0, 0)
		outcome("vesting_delete", o)
	}
	r.Ops["vs.clock"] = func(r *ledger.Runner, st sim.Step) {
		r.EnsureBlock()
		_, vp := pick(st.Int(0, 0))
		now := int64(w.Now)
		target := now + 1
		if vp != nil {
			dur := vp.Expire - vp.Start
			switch st.Int(1, 0) % 10 {
			case 0:
				target = vp.Start - 1
			case 1:
				target = vp.Start
			case 2:
				target = now + 1
			case 3:
				target = now + dur/7 + 1
			case 4:
				target = vp.Start + dur/2
			case 5:
				target = vp.Expire - 1
			case 6:
				target = vp.Expire
			case 7:
				target = vp.Expire + 1
			case 8:
				target = vp.Expire + 100000
			case 9:
				target = now + dur/3 + 1
			}
		}
		if target <= now {
			target = now + 1
		}
		d := target - now
		w.Now = common.Timestamp(target)
		tr.SimTime += float64(d)
		tr.Fault("clock_jump")
		tr.Event("clock +%d", d)
	}
}

// vestingOracle (C16). Everything is decided on the MPT diff of each applied
// transaction: pool records before/after (decoded generically by field name)
// and account balance changes.
type vestingOracle struct{}

func (vestingOracle) AfterBlock(w *ledger.World, bc *ledger.BlockCtx) {}

func poolIDOfInput(t *transaction.Transaction) string {
	if t.SmartContractData == nil {
		return ""
	}
	var in struct {
		PoolID      string `json:"pool_id"`
		Destination string `json:"destination"`
	}
	if json.Unmarshal(t.SmartContractData.InputData, &in) != nil {
		return ""
	}
	return in.PoolID
}

func (vo vestingOracle) AfterTxn(w *ledger.World, bc *ledger.BlockCtx, o *ledger.Outcome) {
	if o.Class == ledger.Rejected {
		return
	}
	t := o.Txn
	now := int64(t.CreationDate)
	toVesting := t.TransactionType == transaction.TxnTypeSmartContract && t.ToClientID == ledger.AddrVesting
	d := deltasOf(w, o)
	fn := t.FunctionName

	// failed operations that the statement says must always be possible
	if toVesting && o.Class == ledger.Chargeable {
		vo.checkRefusal(w, bc, o, now)
		return
	}

	wallet := d.of(ledger.AddrVesting)
	var changed []string
	for k := range d.recs {
		if strings.HasPrefix(k, vestingPoolPrefix) {
			changed = append(changed, k)
		}
	}
	if len(changed) == 0 {
		if wallet.Sign() != 0 && !(t.TransactionType == transaction.TxnTypeSend) {
			if wallet.Sign() < 0 {
				violate(w, "C16", "wallet", fmt.Sprintf("C16/vesting-wallet-debited-without-pool-change/%s", fn), "vesting wallet changed by %s, no pool record changed", wallet)
			}
		}
		return
	}
	if len(changed) > 1 {
		violate(w, "C16", "pool", "C16/several-pools-changed-by-one-transaction", "%d pool records changed", len(changed))
		return
	}
	if !toVesting {
		violate(w, "C16", "pool", "C16/pool-changed-by-foreign-transaction", "pool %s changed by a transaction to %s", changed[0], t.ToClientID)
		return
	}
	ch := d.recs[changed[0]]
	oldP, newP := parsePool(ch.Old), parsePool(ch.New)
	w.Tr.Probe("oracle_pool_change_checked")
	fee := feeOf(w, t)

	// credit of an account net of the fee the sender paid
	credit := func(id string) *big.Int {
		c := new(big.Int).Set(d.of(id))
		if id == t.ClientID {
			c.Add(c, fee)
		}
		return c
	}

	switch {
	case oldP == nil && newP != nil: // created
		if fn != "add" {
			violate(w, "C16", "pool", "C16/pool-created-by-"+fn, "pool created by %s", fn)
		}
		if bigU(newP.Balance).Cmp(bigU(uint64(t.Value))) != 0 || wallet.Cmp(bigU(uint64(t.Value))) != 0 {
			violate(w, "C16", "add", "C16/add-pool-balance-differs-from-locked-value", "value %d, pool balance %d, wallet delta %s", uint64(t.Value), newP.Balance, wallet)
		}
		if c := credit(t.ClientID); new(big.Int).Neg(c).Cmp(bigU(uint64(t.Value))) != 0 {
			violate(w, "C16", "add", "C16/add-owner-debit-differs-from-value", "owner changed by %s (fee excluded), value %d", c, uint64(t.Value))
		}
		for _, e := range newP.Dests {
			if e.Vested != 0 {
				violate(w, "C16", "add", "C16/new-pool-with-vested-tokens", "destination %s starts with vested %d", e.ID, e.Vested)
			}
		}
		if bigU(newP.Balance).Cmp(newP.leftSum()) < 0 {
			violate(w, "C16", "backing", "C16/pool-balance-below-unvested", "pool balance %d < unvested %s", newP.Balance, newP.leftSum())
		}
		if newP.Owner != t.ClientID {
			violate(w, "C16", "add", "C16/pool-owner-is-not-creator", "owner %s creator %s", newP.Owner, t.ClientID)
		}
		return
	case oldP == nil:
		return
	}

	// existing pool changed or deleted
	expired := now >= oldP.Expire
	owner := oldP.Owner
	// bound per destination id on what it may receive in this transaction, and what it must
	// have received by expiry
	maxCredit := map[string]*big.Int{}
	addMax := func(id string, v *big.Int) {
		if maxCredit[id] == nil {
			maxCredit[id] = new(big.Int)
		}
		maxCredit[id].Add(maxCredit[id], v)
	}
	bound := func(e vDest) *big.Int {
		b := sched(e.Amount, oldP.Start, oldP.Expire, now)
		b.Add(b, big.NewInt(1))
		if b.Cmp(bigU(e.Amount)) > 0 {
			b = bigU(e.Amount)
		}
		return b
	}
	destCredits := new(big.Int)
	if newP != nil {
		if newP.Start != oldP.Start || newP.Expire != oldP.Expire || newP.Owner != oldP.Owner || newP.ID != oldP.ID {
			violate(w, "C16", "pool", "C16/pool-terms-changed", "start/expiry/owner/id of pool %s changed", oldP.ID)
		}
		// match destinations: the new list is the old list minus removed entries
		j := 0
		var removed []vDest
		vestedDelta := map[string]*big.Int{}
		for _, e := range oldP.Dests {
			if j < len(newP.Dests) && newP.Dests[j].ID == e.ID && newP.Dests[j].Amount == e.Amount {
				n := newP.Dests[j]
				j++
				sig := ""
				switch {
				case n.Vested < e.Vested:
					sig = "C16/vested-decreased"
				case n.Vested > n.Amount:
					sig = "C16/vested-exceeds-amount"
				case n.Vested > e.Vested && bigU(n.Vested).Cmp(schedFloor(e.Amount, oldP.Start, oldP.Expire, now)) > 0:
					sig = "C16/vested-ahead-of-schedule"
				}
				if sig != "" {
					violate(w, "C16", "destination", sig, "%s: destination %s amount %d: vested %d -> %d at t=%d (start %d, expiry %d, schedule allows %s)",
						fn, e.ID[:min(8, len(e.ID))], e.Amount, e.Vested, n.Vested, now, oldP.Start, oldP.Expire, schedFloor(e.Amount, oldP.Start, oldP.Expire, now))
				}
				if n.Vested >= e.Vested {
					if vestedDelta[e.ID] == nil {
						vestedDelta[e.ID] = new(big.Int)
					}
					vestedDelta[e.ID].Add(vestedDelta[e.ID], bigU(n.Vested-e.Vested))
				}
				continue
			}
			removed = append(removed, e)
		}
		if j != len(newP.Dests) {
			violate(w, "C16", "pool", "C16/destinations-rewritten/"+fn, "destination list of pool %s does not derive from the previous one", oldP.ID)
			return
		}
		if len(removed) > 0 {
			if fn != "stop" || t.ClientID != owner {
				violate(w, "C16", "pool", "C16/destination-removed-by-"+fn, "%d destinations removed by %s from %s", len(removed), fn, t.ClientID)
			}
			for _, e := range removed {
				b := bound(e)
				if b.Cmp(bigU(e.Vested)) > 0 {
					addMax(e.ID, new(big.Int).Sub(b, bigU(e.Vested)))
				}
			}
			w.Tr.Probe("oracle_stop_checked")
		}
		// every destination receives exactly what its vested counters grew by (removed ones: bounded)
		ids := map[string]bool{}
		for id := range vestedDelta {
			ids[id] = true
		}
		for id := range maxCredit {
			ids[id] = true
		}
		for _, id := range ledger.SortedKeys(ids) {
			c := credit(id)
			exact := vestedDelta[id]
			if exact == nil {
				exact = new(big.Int)
			}
			if id == owner && t.ClientID == owner && fn == "unlock" {
				// an unlock by the owner only drains the excess (checked below)
				destCredits.Add(destCredits, exact)
				continue
			}
			lo, hi := exact, new(big.Int).Set(exact)
			if m := maxCredit[id]; m != nil {
				hi.Add(hi, m)
			}
			if maxCredit[id] != nil && c.Cmp(hi) > 0 {
				violate(w, "C16", "destination", "C16/vested-ahead-of-schedule", "stop: destination %s received %s, schedule allows %s", id[:min(8, len(id))], c, hi)
			} else if c.Cmp(lo) < 0 || c.Cmp(hi) > 0 {
				violate(w, "C16", "transfer", "C16/destination-credit-differs-from-vested/"+fn, "destination %s balance changed by %s, vested counters grew by %s (stop allowance %s)", id[:min(8, len(id))], c, exact, new(big.Int).Sub(hi, lo))
			}
			destCredits.Add(destCredits, c)
		}
		// backing
		if bigU(newP.Balance).Cmp(newP.leftSum()) < 0 {
			violate(w, "C16", "backing", "C16/pool-balance-below-unvested", "%s: pool %s balance %d < unvested remainder %s", fn, oldP.ID[len(oldP.ID)-8:], newP.Balance, newP.leftSum())
		}
		// bookkeeping vs wallet
		pd := new(big.Int).Sub(bigU(newP.Balance), bigU(oldP.Balance))
		if pd.Cmp(wallet) != 0 {
			violate(w, "C16", "wallet", "C16/pool-balance-change-differs-from-wallet-change/"+fn, "pool balance changed by %s, vesting wallet by %s", pd, wallet)
		}
		// owner part
		out := new(big.Int).Neg(wallet)
		ownerPart := new(big.Int).Sub(out, destCredits)
		if ownerPart.Sign() != 0 {
			oldExcess := new(big.Int).Sub(bigU(oldP.Balance), oldP.leftSum())
			if fn != "unlock" || t.ClientID != owner {
				violate(w, "C16", "transfer", "C16/unexplained-outflow/"+fn, "vesting wallet paid %s, destinations account for %s", out, destCredits)
			} else if ownerPart.Cmp(oldExcess) != 0 {
				violate(w, "C16", "excess", "C16/owner-unlock-differs-from-excess", "owner received %s, excess was %s", ownerPart, oldExcess)
			} else {
				w.Tr.Probe("oracle_owner_excess_checked")
			}
		}
		for _, id := range d.others(ledger.AddrVesting, ledger.AddrMiner, t.ClientID) {
			if !ids[id] {
				violate(w, "C16", "transfer", "C16/third-account-changed/"+fn, "account %s changed by %s", id, d.of(id))
			}
		}
		// at or after expiry a successful trigger leaves nothing unvested; a successful unlock by a destination gives it everything
		if expired {
			switch {
			case fn == "trigger":
				for _, e := range newP.Dests {
					if e.Vested != e.Amount {
						violate(w, "C16", "expiry", "C16/amount-not-reached-at-expiry", "trigger: destination %s vested %d of %d after a trigger at t=%d >= expiry %d", e.ID[:min(8, len(e.ID))], e.Vested, e.Amount, now, oldP.Expire)
					}
				}
				w.Tr.Probe("oracle_expiry_trigger_checked")
			case fn == "unlock" && t.ClientID != owner:
				for _, e := range newP.Dests {
					if e.ID == t.ClientID {
						if e.Vested != e.Amount {
							violate(w, "C16", "expiry", "C16/amount-not-reached-at-expiry", "unlock: destination vested %d of %d after its unlock at t=%d >= expiry %d", e.Vested, e.Amount, now, oldP.Expire)
						}
						break
					}
				}
				w.Tr.Probe("oracle_expiry_unlock_checked")
			}
		}
		return
	}

	// deleted
	if fn != "delete" || t.ClientID != owner {
		violate(w, "C16", "pool", "C16/pool-deleted-by-"+fn, "pool %s deleted by %s of %s (owner %s)", oldP.ID, fn, t.ClientID, owner)
	}
	w.Tr.Probe("oracle_delete_checked")
	if new(big.Int).Neg(wallet).Cmp(bigU(oldP.Balance)) != 0 {
		violate(w, "C16", "wallet", "C16/delete-payout-differs-from-pool-balance", "pool balance %d, vesting wallet changed by %s", oldP.Balance, wallet)
	}
	minCredit := map[string]*big.Int{}
	for _, e := range oldP.Dests {
		b := bound(e)
		if b.Cmp(bigU(e.Vested)) > 0 {
			addMax(e.ID, new(big.Int).Sub(b, bigU(e.Vested)))
		}
		if expired && e.Amount > e.Vested {
			if minCredit[e.ID] == nil {
				minCredit[e.ID] = new(big.Int)
			}
			minCredit[e.ID].Add(minCredit[e.ID], bigU(e.Amount-e.Vested))
		}
	}
	total := new(big.Int)
	for _, id := range d.others(ledger.AddrVesting, ledger.AddrMiner) {
		c := credit(id)
		if c.Sign() == 0 {
			continue
		}
		total.Add(total, c)
		if id == owner {
			continue
		}
		m := maxCredit[id]
		if m == nil || c.Cmp(m) > 0 || c.Sign() < 0 {
			violate(w, "C16", "destination", "C16/vested-ahead-of-schedule", "delete: account %s received %s on delete, schedule allows %v", id[:min(8, len(id))], c, m)
		}
	}
	for id, m := range minCredit {
		if id == owner {
			continue
		}
		if credit(id).Cmp(m) < 0 {
			violate(w, "C16", "expiry", "C16/amount-not-reached-at-expiry", "delete: destination %s received %s on delete after expiry, %s was still due", id[:min(8, len(id))], credit(id), m)
		}
	}
}

// checkRefusal: chargeable failures of operations that must always be possible.
func (vo vestingOracle) checkRefusal(w *ledger.World, bc *ledger.BlockCtx, o *ledger.Outcome, now int64) {
	t := o.Txn
	fn := t.FunctionName
	if fn != "trigger" && fn != "unlock" && fn != "delete" {
		return
	}
	id := poolIDOfInput(t)
	if !strings.HasPrefix(id, vestingPoolPrefix) {
		return
	}
	vp := readPool(bc, id)
	if vp == nil {
		return
	}
	cause := classifyVestingError(errStr(o))
	isOwner := t.ClientID == vp.Owner
	switch {
	case fn == "delete" && isOwner:
		violate(w, "C16", "owner", "C16/owner-cannot-delete-pool/"+cause, "delete of pool by its owner refused at t=%d (start %d, expiry %d): %s", now, vp.Start, vp.Expire, errStr(o))
	case fn == "unlock" && isOwner:
		excess := new(big.Int).Sub(bigU(vp.Balance), vp.leftSum())
		if excess.Sign() > 0 {
			violate(w, "C16", "owner", "C16/owner-cannot-withdraw-excess/"+cause, "owner unlock refused with excess %s: %s", excess, errStr(o))
		}
	case fn == "trigger" && isOwner && now >= vp.Expire:
		for _, e := range vp.Dests {
			if e.Vested < e.Amount {
				violate(w, "C16", "expiry", "C16/amount-not-reachable-at-expiry/"+cause, "trigger at t=%d >= expiry %d refused while destination %s has %d of %d: %s", now, vp.Expire, e.ID[:min(8, len(e.ID))], e.Vested, e.Amount, errStr(o))
				break
			}
		}
	case fn == "unlock" && now >= vp.Expire:
		for _, e := range vp.Dests {
			if e.ID == t.ClientID {
				if e.Vested < e.Amount {
					violate(w, "C16", "expiry", "C16/amount-not-reachable-at-expiry/"+cause, "unlock by destination at t=%d >= expiry %d refused with %d of %d vested: %s", now, vp.Expire, e.Vested, e.Amount, errStr(o))
				}
				break
			}
		}
	}
}

func classifyVestingError(e string) string {
	switch {
	case strings.Contains(e, "value exceeds balance"):
		return "value-exceeds-pool-balance"
	case strings.Contains(e, "minus overflow"):
		return "vested-above-amount"
	case strings.Contains(e, "invalid transaction ToClientID"):
		return "invalid-destination-id"
	case strings.Contains(e, "no excess"):
		return "no-excess"
	case strings.Contains(e, "empty pool"):
		return "empty-pool"
	default:
		return "other"
	}
}

var vestingScenario = ledger.Scenario{
	Prop:    "C16",
	Weights: map[string]int{"send": 2, "call": 1, "pour": 0, "data": 0, "replay": 2, "block": 3, "clock": 1},
	Lo:      3, Hi: 12,
	GenExtra: func(r *sim.RNG, p *sim.Plan, tier string) {
		p.Steps = mix(r.Child("mix"), p.Steps, genVesting(r.Child("vesting"), p, tier))
	},
	Setup: func(w *ledger.World, r *ledger.Runner) []ledger.Observer {
		setupRaw(w, r)
		setupVesting(w, r)
		return []ledger.Observer{vestingOracle{}}
	},
}

func init() {
	sim.Register(&sim.Check{
		ID: "C16", Title: "Vesting pays each destination at most its amount, on schedule", World: "ledger",
		Gen: vestingScenario.Gen, Exec: vestingScenario.Exec,
		Quick: sim.Budget{Runs: 360, WallS: 75}, Thorough: sim.Budget{Runs: 30000, WallS: 1000},
		LevelText: "seeded search over vesting pools (1-21 destinations after raising max_destinations through the real settings transaction, amounts from 1 to ~1e17 including values just above 2^53, repeated and owner-as-destination ids, start now/later, durations from the configured minimum to 30 years, with and without excess) " +
			"and trigger / unlock (owner, destination, outsider) / stop / delete at clock points placed around each pool's start, middle and expiry; per destination the vested counters and balance changes found in the MPT diff are compared with the linear schedule in big-integer arithmetic",
		LevelNote: "tolerance (DESIGN A.5): vested <= ceil(amount*elapsed/duration)+1 and <= amount; equality with amount required after a successful trigger/unlock/delete at or after expiry; a refused delete / excess unlock by the owner or a refused trigger / destination unlock at or after expiry with tokens still due is a violation; transaction time only moves forward",
		Technique: "deterministic simulation: seeded pool/clock histories, schedule oracle on pool records and balances from the MPT diff",
		DesignRef: "6/C16, A.5", Regime: "single-threaded event loop", Components: ledger.W1Components,
	})
}
