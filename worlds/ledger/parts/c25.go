package parts

import (
	"fmt"
	"math/rand"
	"sort"
	"strings"

	"0chain.net/chaincore/block"
	cstate "0chain.net/chaincore/chain/state"
	"0chain.net/chaincore/transaction"
	"0chain.net/smartcontract/partitions"
	"github.com/0chain/common/core/statecache"
	"github.com/0chain/common/core/util"
	"github.com/linxGnu/grocksdb"

	"verif/sim"
	"verif/worlds/ledger"
)

// ---- C25: partitions behave as a set ----------------------------------------------------------------
//
// Dedicated driver on the ledger world: the exported partitions API is called
// through a real StateContext on a real trie on the simulated disk. A
// "transaction" is one scratch StateContext; commit merges its MPT changes and
// its cache into the block under assembly, abort drops it. Blocks are sealed by
// the world's assembler and persisted by the shipped Chain.SaveChanges; a
// finalised block's state is rebased onto the persistent node DB as
// Chain.finalizeBlock does. Reference model: a Go map per list.

const maxLists = 2

func listName(l int) string { return fmt.Sprintf("verif:c25:list:%d", l) }

type listModel struct {
	exists bool
	items  map[string]pItem
}

type model [maxLists]listModel

func (m model) clone() model {
	var o model
	for l := range m {
		o[l].exists = m[l].exists
		o[l].items = make(map[string]pItem, len(m[l].items))
		for k, v := range m[l].items {
			o[l].items[k] = v
		}
	}
	return o
}

func (m model) digest() string {
	var sb strings.Builder
	for l := range m {
		ks := make([]string, 0, len(m[l].items))
		for k := range m[l].items {
			ks = append(ks, k)
		}
		sort.Strings(ks)
		fmt.Fprintf(&sb, "%v[", m[l].exists)
		for _, k := range ks {
			it := m[l].items[k]
			fmt.Fprintf(&sb, "%s:%d:%d,", short(k), it.V, len(it.Pad))
		}
		sb.WriteString("]")
	}
	return fmt.Sprintf("%016x", sim.Hash64(sb.String()))
}

type pend struct {
	b *block.Block
	m model
}

type txnCtx struct {
	sc    *cstate.StateContext
	objs  [maxLists]*partitions.Partitions
	dirty [maxLists]bool
	m     model
	ops   int
}

type c25 struct {
	w      *ledger.World
	tr     *sim.Trace
	p      *sim.Plan
	ids    []string
	psize  [maxLists]int
	nlists int
	live   bool // check Size/Exist on the live object after every operation

	bc      *ledger.BlockCtx
	txn     *txnCtx
	cur     model // committed content of the block under assembly (head content when none)
	pending []pend
	disk    model        // content of the last block whose save completed
	diskB   *block.Block // that block
	blocks  int

	inOp    bool
	rdArm   int
	rdFired bool
	wrArm   int
	wrFired bool
	dead    bool // the state is no longer meaningful (after a known finding): ignore the rest of the plan
}

func (d *c25) viol(oracle, sig, format string, a ...any) {
	d.tr.Violate(&sim.Violation{Prop: "C25", Oracle: oracle, Sig: "C25/" + sig, Detail: fmt.Sprintf(format, a...)})
}

func (d *c25) installFault() {
	d.w.Disk.SetFault(func(_ *grocksdb.Disk, op string, n uint64) error {
		switch op {
		case "get":
			if d.inOp {
				d.tr.Probe("disk_read_inside_operation")
			}
			if d.inOp && d.rdArm > 0 {
				d.rdArm--
				if d.rdArm == 0 {
					d.rdFired = true
					d.tr.Fault("disk_read_error")
					return grocksdb.ErrInjected
				}
			}
		case "write":
			if d.wrArm > 0 {
				d.wrArm--
				if d.wrArm == 0 {
					d.wrFired = true
					d.tr.Fault("disk_write_error")
					return grocksdb.ErrInjected
				}
			}
		}
		return nil
	})
}

// call runs one API call on a live object with the read fault enabled.
func (d *c25) call(f func() error) (err error, faulted bool) {
	d.rdFired = false
	d.inOp = true
	err = f()
	d.inOp = false
	return err, d.rdFired
}

func classify(err error) string {
	switch {
	case err == nil:
		return "ok"
	case partitions.ErrItemExist(err):
		return "exist"
	case partitions.ErrItemNotFound(err):
		return "notfound"
	}
	return "error"
}

// ---- transactions, blocks ---------------------------------------------------------------------------

func (d *c25) ensureBlock() {
	if d.bc == nil {
		d.bc = d.w.NewBlock(nil, d.blocks)
	}
}

func (d *c25) ensureTxn() *txnCtx {
	d.ensureBlock()
	if d.txn == nil {
		d.w.Reg.BeginTxn(nil)
		d.txn = &txnCtx{sc: d.w.StateContextOn(d.bc), m: d.cur.clone()}
	}
	return d.txn
}

// obj returns the live object of list l in the current transaction, loading
// it through the API when the transaction has not touched the list yet.
func (d *c25) obj(l int) *partitions.Partitions {
	t := d.ensureTxn()
	if t.objs[l] != nil {
		return t.objs[l]
	}
	var p *partitions.Partitions
	name := listName(l)
	how := "get"
	err, faulted := d.call(func() (e error) {
		if t.m[l].exists {
			p, e = partitions.GetPartitions(t.sc, name)
		} else {
			how = "create"
			p, e = partitions.CreateIfNotExists(t.sc, name, d.psize[l])
		}
		return e
	})
	if err != nil {
		if faulted {
			d.abort("io-error")
			return nil
		}
		d.viol("open", "open/"+how+"/unexpected-error", "list %d: %v", l, err)
		return nil
	}
	if how == "create" {
		t.m[l].exists = true
		t.m[l].items = map[string]pItem{}
		d.tr.Probe("list_created")
	}
	t.objs[l] = p
	return p
}

func (d *c25) abort(why string) {
	if d.txn == nil {
		return
	}
	d.tr.Fault("txn_abort:" + why)
	d.tr.Event("abort why=%s ops=%d", why, d.txn.ops)
	d.txn = nil
	if d.bc != nil {
		d.verify(d.w.StateContextOn(d.bc), d.cur, "aborted")
	}
}

// saveObjs calls Save on every live object with unsaved operations; false when the transaction was aborted.
func (d *c25) saveObjs() bool {
	t := d.txn
	if t == nil {
		return true
	}
	for l := 0; l < d.nlists; l++ {
		if t.objs[l] == nil || !t.dirty[l] {
			continue
		}
		p := t.objs[l]
		err, faulted := d.call(func() error { return p.Save(t.sc) })
		if err != nil {
			if faulted {
				d.abort("io-error")
				return false
			}
			d.viol("save", "save/unexpected-error", "list %d: %v", l, err)
			return false
		}
		t.dirty[l] = false
	}
	return true
}

// uncachedView is a state context over the transaction's trie (same node DB
// and root) that bypasses every value cache.
func (d *c25) uncachedView(sc *cstate.StateContext) *cstate.StateContext {
	st := sc.GetState()
	v := util.NewMerklePatriciaTrie(st.GetNodeDB(), st.GetVersion(), st.GetRoot(), statecache.NewEmpty())
	return d.w.C.NewStateContext(d.bc.B, v, &transaction.Transaction{ClientID: d.w.OwnerID, CreationDate: d.w.Now}, nil)
}

func (d *c25) commit() {
	t := d.txn
	if t == nil {
		return
	}
	if !d.saveObjs() {
		return
	}
	if d.tr.Failed() {
		return
	}
	if err := d.bc.State.MergeMPTChanges(t.sc.GetState()); err != nil {
		d.viol("commit", "commit/merge-error", "%v", err)
		return
	}
	t.sc.Cache().Commit()
	d.cur = t.m
	d.txn = nil
	d.tr.Event("commit ops=%d root=%x model=%s", t.ops, shortB(d.bc.State.GetRoot()), d.cur.digest())
	d.tr.State(d.cur.digest())
	d.verify(d.w.StateContextOn(d.bc), d.cur, "committed")
}

func shortB(b []byte) []byte {
	if len(b) > 6 {
		return b[:6]
	}
	return b
}

func (d *c25) endBlock() {
	d.commit()
	if d.bc == nil || d.txn != nil {
		return
	}
	b := d.bc.Finish()
	d.blocks++
	d.pending = append(d.pending, pend{b: b, m: d.cur.clone()})
	d.tr.Event("block round=%d root=%x", b.Round, shortB(b.ClientStateHash))
	d.bc = nil
}

// finalize persists the pending blocks in order with the shipped
// Chain.SaveChanges. kind: 0 none, 1 failed write (error return) at the k-th
// write, 2 process crash at the k-th write (k beyond the pending blocks: crash
// right after the last save) followed by a restart from the disk only, 3 clean
// shutdown after saving everything and restart.
func (d *c25) finalize(kind int, k int) {
	d.endBlock()
	if d.txn != nil || d.tr.Failed() {
		return
	}
	n := len(d.pending)
	if kind == 1 && n == 0 {
		kind = 0
	}
	k = 1 + k%(n+1) // 1..n+1
	switch kind {
	case 1:
		if k > n {
			k = n
		}
		d.wrArm = k
	case 2:
		d.w.Disk.CrashAtWrite(uint64(k))
	case 3:
		k = n + 1
	}
	saved := 0
	for _, pb := range d.pending {
		if what := d.uncovered(pb.b); what != "" {
			// the block about to be persisted no longer holds its own new nodes: saving it
			// would leave the trie unreadable from the disk
			d.viol("persist", "finalize/pending-block-lost-node", "block round %d: %s", pb.b.Round, what)
			d.dead = true
			return
		}
		before := d.w.Disk.Writes()
		err := d.w.Save(pb.b)
		after := d.w.Disk.Writes()
		applied := after > before
		// ground truth is the disk: MPT.SaveChanges reports the outcome through a
		// select over an error channel and a done channel that become ready together
		switch {
		case !applied && err == nil:
			d.tr.Probe("save_returned_nil_for_failed_write")
		case applied && err != nil:
			d.tr.Probe("save_returned_error_for_applied_write")
		}
		if !applied {
			break
		}
		saved++
		pb.b.ClientState.SetNodeDB(d.w.C.GetStateDB()) // Chain.rebaseState
		d.disk, d.diskB = pb.m, pb.b
	}
	d.wrArm = 0
	d.tr.Event("finalize kind=%d k=%d pending=%d saved=%d", kind, k, n, saved)
	interrupted := d.pending[saved:]
	d.pending = append([]pend(nil), interrupted...)
	switch kind {
	case 1:
		if saved < n {
			d.tr.Probe("save_failed_block_kept_pending")
		}
	case 2:
		if !d.w.Disk.Crashed() {
			// crash point after the last save: the process dies before its next write
			d.w.Disk.Crash()
			d.tr.Fault("crash_after_save")
		} else {
			d.tr.Fault("crash_mid_save")
		}
		d.restart(interrupted)
	case 3:
		// clean shutdown and reopen (not a fault): everything saved must be found again
		d.w.Disk.Crash()
		d.tr.Probe("clean_restart")
		d.restart(interrupted)
	}
}

// uncovered walks the trie of a block about to be saved: every node reachable
// from its root must be in the block's change set (descend) or already on the
// disk (closed under reachability: stop). Returns a description of the first
// node that is neither.
func (d *c25) uncovered(b *block.Block) string {
	_, cc, _, _ := b.ClientState.GetChanges()
	in := map[string]bool{}
	for _, c := range cc {
		in[string(c.New.GetHashBytes())] = true
	}
	mem, disk := b.ClientState.GetNodeDB(), d.w.C.GetStateDB()
	var walk func(key util.Key, prefix string) string
	walk = func(key util.Key, prefix string) string {
		if !in[string(key)] {
			if _, err := disk.GetNode(key); err == nil {
				return ""
			}
			n, err := mem.GetNode(key)
			if err != nil {
				return fmt.Sprintf("node at path %q is neither in memory nor on the disk", prefix)
			}
			return fmt.Sprintf("%T at path %q is referenced by the block's trie but is neither in its change set nor on the disk", n, prefix)
		}
		n, err := mem.GetNode(key)
		if err != nil {
			return fmt.Sprintf("changed node at path %q is missing from the block's node DB", prefix)
		}
		switch nd := n.(type) {
		case *util.FullNode:
			for i := 0; i < 16; i++ {
				if c := nd.Children[i]; c != nil {
					if s := walk(c, prefix+string("0123456789abcdef"[i])); s != "" {
						return s
					}
				}
			}
		case *util.ExtensionNode:
			return walk(nd.NodeKey, prefix+string(nd.Path))
		}
		return ""
	}
	if len(b.ClientStateHash) == 0 {
		return ""
	}
	return walk(b.ClientStateHash, "")
}

// restart rebuilds the state from the disk only. The state found must be
// entirely the last saved one or, when the root of the interrupted block is
// readable, entirely that block's - never a mixture.
func (d *c25) restart(interrupted []pend) {
	d.w.Disk.Recover()
	d.installFault()
	d.w.C.SetupStateCache() // process memory is gone
	d.txn, d.bc = nil, nil
	base, m := d.diskB, d.disk
	if len(interrupted) > 0 {
		ib := interrupted[0]
		if string(ib.b.ClientStateHash) != string(base.ClientStateHash) {
			if _, err := d.w.C.GetStateDB().GetNode(ib.b.ClientStateHash); err == nil {
				base, m = ib.b, ib.m
				d.tr.Probe("restart_found_interrupted_root")
			}
		}
	}
	base.CreateState(d.w.C.GetStateDB(), base.ClientStateHash)
	d.w.Head = base
	d.pending = nil
	d.cur = m.clone()
	d.disk, d.diskB = m.clone(), base
	d.tr.Event("restart round=%d root=%x model=%s", base.Round, shortB(base.ClientStateHash), m.digest())
	d.ensureBlock()
	d.verify(d.w.StateContextOn(d.bc), d.cur, "restart")
}

// ---- the oracle -------------------------------------------------------------------------------------

// liveCheck: Size and Exist on the live object (neither populates the object's caches).
func (d *c25) liveCheck(l int) {
	t := d.txn
	if t == nil || t.objs[l] == nil || d.tr.Failed() {
		return
	}
	p, m := t.objs[l], t.m[l]
	n, err := p.Size(t.sc)
	if err != nil || n != len(m.items) {
		d.viol("size", "live/size", "list %d: Size=%d err=%v, reference set has %d", l, n, err, len(m.items))
		return
	}
	for _, id := range d.ids {
		ok, err := p.Exist(t.sc, id)
		_, want := m.items[id]
		if err != nil {
			d.viol("exist", "live/exist-error", "list %d id %s: %v", l, short(id), err)
			return
		}
		if ok != want {
			d.viol("exist", fmt.Sprintf("live/exist-%s", phantom(ok)), "list %d id %s: Exist=%v, reference %v", l, short(id), ok, want)
			return
		}
	}
}

func phantom(got bool) string {
	if got {
		return "phantom"
	}
	return "missing"
}

// verify loads fresh objects through sc and compares everything the API shows with the reference set.
func (d *c25) verify(sc *cstate.StateContext, m model, where string) {
	if d.tr.Failed() {
		return
	}
	for l := 0; l < d.nlists; l++ {
		d.verifyList(sc, l, m[l], where)
		if d.tr.Failed() {
			return
		}
	}
}

func (d *c25) verifyList(sc *cstate.StateContext, l int, m listModel, where string) {
	name := listName(l)
	p, err := partitions.GetPartitions(sc, name)
	if !m.exists {
		if err == nil {
			d.viol("load", where+"/list-exists-unexpectedly", "list %d readable although never committed", l)
		} else if err != util.ErrValueNotPresent {
			d.viol("load", where+"/load-error", "list %d: %v", l, err)
		}
		return
	}
	if err != nil {
		d.viol("load", where+"/load-error", "list %d: %v", l, err)
		return
	}
	psize := d.psize[l]
	// size
	n, err := p.Size(sc)
	if err != nil || n != len(m.items) {
		d.viol("size", where+"/size", "list %d: Size=%d err=%v, reference set has %d", l, n, err, len(m.items))
		return
	}
	// full iteration: every member exactly once
	seen := map[string]int{}
	counts := map[int]int{}
	maxPart := -1
	bad := ""
	err = p.ForEach(sc, func(part int, id string, data []byte) bool {
		if _, dup := seen[id]; dup {
			bad = fmt.Sprintf("foreach-duplicate|id %s shown twice (partitions %d and %d)", short(id), seen[id], part)
			return false
		}
		seen[id] = part
		counts[part]++
		if part > maxPart {
			maxPart = part
		}
		want, ok := m.items[id]
		if !ok {
			bad = fmt.Sprintf("foreach-phantom|id %s shown in partition %d but not in the reference set", short(id), part)
			return false
		}
		var got pItem
		if _, e := got.UnmarshalMsg(data); e != nil || !got.equal(want) {
			bad = fmt.Sprintf("foreach-value|id %s: iteration shows %v (err %v), last written %v", short(id), got, e, want)
		}
		return false
	})
	if err != nil {
		d.viol("foreach", where+"/foreach-error", "list %d: %v", l, err)
		return
	}
	if bad != "" {
		i := strings.IndexByte(bad, '|')
		d.viol("foreach", where+"/"+bad[:i], "list %d: %s", l, bad[i+1:])
		return
	}
	for id := range m.items {
		if _, ok := seen[id]; !ok {
			d.viol("foreach", where+"/foreach-missing", "list %d: member %s not shown by the iteration", l, short(id))
			return
		}
	}
	// all partitions except the last are full
	for i := 0; i <= maxPart; i++ {
		c := counts[i]
		if c > psize || (i < maxPart && c != psize) {
			d.viol("fullness", where+"/partition-not-full", "list %d: partition %d of 0..%d holds %d items, size %d", l, i, maxPart, c, psize)
			return
		}
	}
	if maxPart > 0 {
		d.tr.Probe("verified_multi_partition")
	}
	// membership and lookups
	for _, id := range d.ids {
		want, member := m.items[id]
		ok, err := p.Exist(sc, id)
		if err != nil {
			d.viol("exist", where+"/exist-error", "list %d id %s: %v", l, short(id), err)
			return
		}
		if ok != member {
			d.viol("exist", where+"/exist-"+phantom(ok), "list %d id %s: Exist=%v, reference %v", l, short(id), ok, member)
			return
		}
		var got pItem
		loc, err := p.Get(sc, id, &got)
		switch {
		case member && err != nil:
			d.viol("get", where+"/get-missing", "list %d member %s: Get: %v", l, short(id), err)
			return
		case !member && err == nil:
			d.viol("get", where+"/get-phantom", "list %d: Get returns %v for non-member %s", l, got, short(id))
			return
		case !member && !partitions.ErrItemNotFound(err):
			d.viol("get", where+"/get-error", "list %d non-member %s: %v", l, short(id), err)
			return
		case member && !got.equal(want):
			d.viol("get", where+"/get-value", "list %d id %s: Get returns %v, last written %v", l, short(id), got, want)
			return
		case member && loc != seen[id]:
			d.viol("get", where+"/get-location", "list %d id %s: Get reports partition %d, iteration showed it in %d", l, short(id), loc, seen[id])
			return
		}
	}
	// random sampling: distinct members
	rs := int64(sim.Hash64(where, name, fmt.Sprint(len(m.items))) >> 1)
	d.checkRandom(sc, p, l, m, where, rs)
}

func (d *c25) checkRandom(sc *cstate.StateContext, p *partitions.Partitions, l int, m listModel, where string, seed int64) {
	var out []pItem
	err := p.GetRandomItems(sc, rand.New(rand.NewSource(seed)), &out)
	if len(m.items) == 0 {
		if err == nil && len(out) > 0 {
			d.viol("random", where+"/random-nonmember", "list %d: %d random items from an empty list", l, len(out))
		}
		return
	}
	if err != nil {
		d.viol("random", where+"/random-error", "list %d (%d members): %v", l, len(m.items), err)
		return
	}
	if len(out) == 0 {
		d.viol("random", where+"/random-empty", "list %d (%d members): no random items", l, len(m.items))
		return
	}
	got := map[string]bool{}
	for _, it := range out {
		if got[it.ID] {
			d.viol("random", where+"/random-duplicate", "list %d: random sample shows %s twice", l, short(it.ID))
			return
		}
		got[it.ID] = true
		want, ok := m.items[it.ID]
		if !ok {
			d.viol("random", where+"/random-nonmember", "list %d: random sample contains non-member %s", l, short(it.ID))
			return
		}
		if !it.equal(want) {
			d.viol("random", where+"/random-value", "list %d id %s: sample shows %v, last written %v", l, short(it.ID), it, want)
			return
		}
	}
	if len(out) > 1 {
		d.tr.Probe("random_sample_multi")
	}
}

// ---- operations ---------------------------------------------------------------------------------------

type laid struct {
	part int
	id   string
}

// layout iterates the live object (as a contract would) to resolve position kinds.
func (d *c25) layout(p *partitions.Partitions, sc *cstate.StateContext) ([]laid, bool) {
	var out []laid
	err, faulted := d.call(func() error {
		return p.ForEach(sc, func(part int, id string, _ []byte) bool {
			out = append(out, laid{part, id})
			return false
		})
	})
	if err != nil {
		if faulted {
			d.abort("io-error")
		} else {
			d.viol("foreach", "live/foreach-error", "%v", err)
		}
		return nil, false
	}
	return out, true
}

// pick resolves (sel, k) to an id: sel 0 = id #k of the universe (member or
// not), otherwise a member by position: first, tail of the last partition,
// head of the last partition, middle, tail of the partition before the last,
// k-th in iteration order.
func (d *c25) pick(p *partitions.Partitions, l int, sel, k int64) (string, bool) {
	t := d.txn
	if sel%7 == 0 || len(t.m[l].items) == 0 {
		return d.ids[int(k)%len(d.ids)], true
	}
	lay, ok := d.layout(p, t.sc)
	if !ok {
		return "", false
	}
	if len(lay) == 0 {
		return d.ids[int(k)%len(d.ids)], true
	}
	last := lay[len(lay)-1].part
	switch sel % 7 {
	case 1:
		d.tr.Probe("pos_first")
		return lay[0].id, true
	case 2:
		d.tr.Probe("pos_last_tail")
		return lay[len(lay)-1].id, true
	case 3:
		for _, e := range lay {
			if e.part == last {
				d.tr.Probe("pos_last_head")
				return e.id, true
			}
		}
	case 4:
		d.tr.Probe("pos_middle")
		return lay[len(lay)/2].id, true
	case 5:
		for i := len(lay) - 1; i >= 0; i-- {
			if lay[i].part == last-1 {
				d.tr.Probe("pos_before_last_tail")
				return lay[i].id, true
			}
		}
	}
	return lay[int(k)%len(lay)].id, true
}

func (d *c25) mkItem(id string, vseed, pad int64) pItem {
	it := pItem{ID: id, V: vseed}
	if pad > 0 {
		it.Pad = sim.NewRNG(uint64(vseed) ^ 0x5bd1e995).Bytes(int(pad % 48))
	}
	return it
}

// result handles the outcome class of an operation; true when the model may be updated / compared.
func (d *c25) result(op string, l int, got, want string, faulted bool, err error) bool {
	d.tr.Outcome(op + "/" + got)
	if got == want {
		return true
	}
	if got == "error" && faulted {
		d.abort("io-error")
		return false
	}
	sig := fmt.Sprintf("%s/expected-%s-got-%s", op, want, got)
	if faulted {
		sig += "/after-io-error"
	}
	d.viol("result", sig, "list %d: %s returned %v, the reference set expects %s", l, op, err, want)
	return false
}

func (d *c25) partCount(l int) int {
	n := len(d.txn.m[l].items)
	if n == 0 {
		return 1
	}
	return (n + d.psize[l] - 1) / d.psize[l]
}

func (d *c25) step(st sim.Step) {
	if d.dead {
		return
	}
	l := st.A % d.nlists
	if l < 0 {
		l = -l
	}
	switch st.Op {
	case "add", "addx":
		p := d.obj(l)
		if p == nil {
			return
		}
		t := d.txn
		id := d.ids[int(st.Int(0, 0))%len(d.ids)]
		it := d.mkItem(id, st.Int(1, 1), st.Int(2, 0))
		_, member := t.m[l].items[id]
		want := "ok"
		if member {
			want = "exist"
		}
		before := d.partCount(l)
		var loc int
		err, faulted := d.call(func() (e error) {
			if st.Op == "addx" {
				loc, e = p.AddX(t.sc, &it)
				return e
			}
			return p.Add(t.sc, &it)
		})
		t.ops++
		t.dirty[l] = true
		got := classify(err)
		d.tr.Event("%s l=%d id=%s -> %s", st.Op, l, short(id), got)
		if !d.result(st.Op, l, got, want, faulted, err) {
			return
		}
		if got == "ok" {
			t.m[l].items[id] = it
			if d.partCount(l) > before {
				d.tr.Probe("partition_split")
			}
			if st.Op == "addx" && loc != d.partCount(l)-1 {
				d.viol("result", "addx/location", "list %d: AddX reports partition %d, the set of %d items with size %d ends in partition %d", l, loc, len(t.m[l].items), d.psize[l], d.partCount(l)-1)
				return
			}
		} else {
			d.tr.Probe("add_duplicate_rejected")
		}
	case "upd", "updf":
		p := d.obj(l)
		if p == nil {
			return
		}
		t := d.txn
		id, ok := d.pick(p, l, st.Int(0, 0), st.Int(1, 0))
		if !ok {
			return
		}
		it := d.mkItem(id, st.Int(2, 1), st.Int(3, 0))
		old, member := t.m[l].items[id]
		want := "ok"
		if !member {
			want = "notfound"
		}
		fail := st.Op == "updf" && st.Int(4, 0)%4 == 3
		errUser := fmt.Errorf("callback refuses")
		var seenOld *pItem
		err, faulted := d.call(func() error {
			if st.Op == "upd" {
				return p.UpdateItem(t.sc, &it)
			}
			_, e := p.Update(t.sc, id, func(data []byte) ([]byte, error) {
				var o pItem
				if _, ue := o.UnmarshalMsg(data); ue != nil {
					return nil, ue
				}
				seenOld = &o
				if fail {
					return nil, errUser
				}
				return it.MarshalMsg(nil)
			})
			return e
		})
		t.ops++
		t.dirty[l] = true
		got := classify(err)
		if fail && member && err == errUser {
			got, want = "refused", "refused"
			d.tr.Probe("update_callback_error")
		}
		d.tr.Event("%s l=%d id=%s -> %s", st.Op, l, short(id), got)
		if !d.result(st.Op, l, got, want, faulted, err) {
			return
		}
		if seenOld != nil && !seenOld.equal(old) {
			d.viol("get", "live/update-sees-stale-value", "list %d id %s: Update callback received %v, last written %v", l, short(id), *seenOld, old)
			return
		}
		if got == "ok" {
			t.m[l].items[id] = it
		}
	case "rm", "rmx":
		p := d.obj(l)
		if p == nil {
			return
		}
		t := d.txn
		id, ok := d.pick(p, l, st.Int(0, 0), st.Int(1, 0))
		if !ok {
			return
		}
		_, member := t.m[l].items[id]
		want := "ok"
		if !member {
			want = "notfound"
		}
		before := d.partCount(l)
		nBefore := len(t.m[l].items)
		var locs *partitions.RemoveLocs
		err, faulted := d.call(func() (e error) {
			if st.Op == "rmx" {
				locs, e = p.RemoveX(t.sc, id)
				return e
			}
			return p.Remove(t.sc, id)
		})
		t.ops++
		t.dirty[l] = true
		got := classify(err)
		d.tr.Event("%s l=%d id=%s -> %s", st.Op, l, short(id), got)
		if !d.result(st.Op, l, got, want, faulted, err) {
			return
		}
		if got == "ok" && st.Op == "rmx" {
			// the replacement comes from the last partition; the hole is at or before it
			if locs == nil || locs.Replace != before-1 || locs.From < 0 || locs.From > locs.Replace {
				d.viol("result", "rmx/locations", "list %d: RemoveX reports %+v, the set of %d items with size %d ends in partition %d", l, locs, nBefore, d.psize[l], before-1)
				return
			}
			var tail pItem
			if _, e := tail.UnmarshalMsg(locs.ReplaceItem); e != nil {
				d.viol("result", "rmx/replace-item", "list %d: replacement item does not decode: %v", l, e)
				return
			}
			if w, ok := t.m[l].items[tail.ID]; !ok || !w.equal(tail) {
				d.viol("result", "rmx/replace-item", "list %d: replacement item %v is not a member with that value", l, tail)
				return
			}
		}
		if got == "ok" {
			delete(t.m[l].items, id)
			if nBefore > 1 && d.partCount(l) < before {
				d.tr.Probe("last_partition_emptied")
			}
			if before > 1 {
				d.tr.Probe("remove_with_several_partitions")
			}
			if len(t.m[l].items) == 0 {
				d.tr.Probe("list_emptied")
			}
		} else {
			d.tr.Probe("remove_absent")
		}
	case "get":
		p := d.obj(l)
		if p == nil {
			return
		}
		t := d.txn
		id, ok := d.pick(p, l, st.Int(0, 0), st.Int(1, 0))
		if !ok {
			return
		}
		wantIt, member := t.m[l].items[id]
		want := "ok"
		if !member {
			want = "notfound"
		}
		var gotIt pItem
		err, faulted := d.call(func() error { _, e := p.Get(t.sc, id, &gotIt); return e })
		got := classify(err)
		d.tr.Event("get l=%d id=%s -> %s", l, short(id), got)
		if !d.result("get", l, got, want, faulted, err) {
			return
		}
		if member && !gotIt.equal(wantIt) {
			d.viol("get", "live/get-value", "list %d id %s: Get returns %v, last written %v", l, short(id), gotIt, wantIt)
			return
		}
	case "scan":
		p := d.obj(l)
		if p == nil {
			return
		}
		t := d.txn
		m := t.m[l]
		seen := map[string]bool{}
		bad := ""
		cb := func(part int, id string, data []byte) bool {
			want, ok := m.items[id]
			var got pItem
			_, e := got.UnmarshalMsg(data)
			switch {
			case seen[id]:
				bad = "foreach-duplicate|" + short(id)
			case !ok:
				bad = "foreach-phantom|" + short(id)
			case e != nil || !got.equal(want):
				bad = "foreach-value|" + short(id)
			}
			seen[id] = true
			return false
		}
		whole := st.Int(0, 0)%3 != 2
		idx := int(st.Int(1, 0)) % (d.partCount(l) + 1)
		if st.Int(0, 0)%3 == 1 && d.partCount(l) > 1 {
			// not part of the property: does returning true stop the whole iteration?
			calls := 0
			if e, _ := d.call(func() error {
				return p.ForEach(t.sc, func(int, string, []byte) bool { calls++; return true })
			}); e == nil {
				if calls > 1 {
					d.tr.Probe("foreach_stop_only_skips_to_next_partition")
				} else {
					d.tr.Probe("foreach_stop_ends_iteration")
				}
			}
			if d.txn == nil {
				return
			}
		}
		err, faulted := d.call(func() error {
			if whole {
				return p.ForEach(t.sc, cb)
			}
			return p.ForEachPart(t.sc, idx, cb)
		})
		d.tr.Event("scan l=%d whole=%v idx=%d -> %d items err=%v", l, whole, idx, len(seen), err != nil)
		if err != nil {
			if faulted {
				d.abort("io-error")
				return
			}
			if !whole && idx >= d.partCount(l) {
				d.tr.Probe("foreachpart_beyond_last")
				return
			}
			d.viol("foreach", "live/foreach-error", "list %d: %v", l, err)
			return
		}
		if bad != "" {
			i := strings.IndexByte(bad, '|')
			d.viol("foreach", "live/"+bad[:i], "list %d id %s", l, bad[i+1:])
			return
		}
		if whole && len(seen) != len(m.items) {
			d.viol("foreach", "live/foreach-missing", "list %d: iteration shows %d of %d members", l, len(seen), len(m.items))
			return
		}
		if !whole && len(seen) > d.psize[l] {
			d.viol("fullness", "live/partition-overfull", "list %d: partition %d shows %d items, size %d", l, idx, len(seen), d.psize[l])
			return
		}
	case "repair":
		p := d.obj(l)
		if p == nil {
			return
		}
		t := d.txn
		err, faulted := d.call(func() error { return p.RepairPartitionLoc(t.sc) })
		t.ops++
		t.dirty[l] = true
		d.tr.Event("repair l=%d err=%v", l, err != nil)
		if err != nil {
			if faulted {
				d.abort("io-error")
				return
			}
			d.viol("result", "repair/unexpected-error", "list %d: %v", l, err)
			return
		}
		d.tr.Probe("repair_locations_called")
	case "rand":
		p := d.obj(l)
		if p == nil {
			return
		}
		t := d.txn
		d.tr.Event("rand l=%d n=%d", l, len(t.m[l].items))
		d.checkRandom(t.sc, p, l, t.m[l], "live", st.Int(0, 1))
	case "save", "reopen":
		if d.txn == nil {
			return
		}
		t := d.txn
		if !d.saveObjs() || d.tr.Failed() {
			return
		}
		d.tr.Event("%s root=%x", st.Op, shortB(t.sc.GetState().GetRoot()))
		d.verify(d.uncachedView(t.sc), t.m, "saved")
		if st.Op == "reopen" {
			t.objs = [maxLists]*partitions.Partitions{}
			d.tr.Probe("reopen_in_txn")
		}
		return
	case "commit":
		d.commit()
		return
	case "abort":
		if d.txn != nil && d.txn.ops > 0 {
			d.tr.Probe("abort_with_pending_ops")
		}
		d.abort("plan")
		return
	case "block":
		d.endBlock()
		return
	case "dropblock":
		if d.bc == nil {
			return
		}
		d.txn, d.bc = nil, nil
		if len(d.pending) > 0 {
			d.cur = d.pending[len(d.pending)-1].m.clone()
		} else {
			d.cur = d.disk.clone()
		}
		d.tr.Fault("block_abandoned")
		d.tr.Event("dropblock")
		d.ensureBlock()
		d.verify(d.w.StateContextOn(d.bc), d.cur, "next-block")
		return
	case "final":
		d.finalize(int(st.Int(0, 0))%3, int(st.Int(1, 0))%8)
		return
	case "cold":
		d.endBlock()
		if d.txn != nil || d.tr.Failed() {
			return
		}
		d.w.C.SetupStateCache()
		d.tr.Fault("cold_cache")
		d.tr.Event("cold")
		d.ensureBlock()
		d.verify(d.w.StateContextOn(d.bc), d.cur, "cold-reload")
		return
	case "rderr":
		d.rdArm = 1 + int(st.Int(0, 0))%6
		d.tr.Event("arm read fault %d", d.rdArm)
		return
	default:
		return
	}
	if d.live && d.txn != nil {
		d.liveCheck(l)
	}
}

func knownOnly(tr *sim.Trace) bool {
	for _, v := range tr.Viol {
		if sim.IsKnown(v.Prop, v.Sig) == nil {
			return false
		}
	}
	return true
}

func execC25(env *sim.Env, p *sim.Plan) *sim.Result {
	tr := sim.NewTrace()
	tr.Keep = env.KeepLog
	w := ledger.NewWorld(p.Seed, ledger.Cfg{Clients: 1, Miners: 1, Sharders: 1, Fees: false, Funding: 1e10, Scheme: "bls0chain"}, tr)
	defer w.Close()
	d := &c25{w: w, tr: tr, p: p}
	d.nlists = int(p.CfgInt("lists", 1))
	if d.nlists < 1 || d.nlists > maxLists {
		d.nlists = 1
	}
	for l := 0; l < maxLists; l++ {
		d.psize[l] = int(p.CfgInt(fmt.Sprintf("psize%d", l), 2))
		if d.psize[l] < 1 {
			d.psize[l] = 1
		}
	}
	d.live = p.CfgInt("live", 1) != 0
	nids := int(p.CfgInt("ids", 6))
	if nids < 1 {
		nids = 1
	}
	idr := sim.NewRNG(p.Seed).Child("ids")
	for i := 0; i < nids; i++ {
		d.ids = append(d.ids, fmt.Sprintf("%x", idr.Bytes(4+idr.Intn(29))))
	}
	for l := range d.cur {
		d.cur[l].items = map[string]pItem{}
	}
	d.disk, d.diskB = d.cur.clone(), w.Genesis
	d.installFault()
	for _, st := range p.Steps {
		d.step(st)
		if tr.Failed() && !knownOnly(tr) {
			break
		}
	}
	if !tr.Failed() && !d.dead {
		// everything committed must survive a clean finalisation and a restart from the disk only
		d.finalize(3, 0)
	}
	w.Disk.SetFault(nil)
	return tr.Result(p.Seed)
}

// ---- plans ----------------------------------------------------------------------------------------------

func genC25(seed uint64, tier string) *sim.Plan {
	root := sim.NewRNG(seed)
	sw := root.Child("swarm")
	r := root.Child("plan")
	sizes := []int64{1, 2, 3, 4, 5, 8}
	p := &sim.Plan{Cfg: map[string]int64{
		"lists":  int64(1 + sw.Pick([]int{3, 1})),
		"psize0": sizes[sw.Pick([]int{5, 5, 4, 2, 1, 1})],
		"psize1": sizes[sw.Pick([]int{5, 5, 4, 2, 1, 1})],
		"live":   int64(sw.Intn(2)),
	}}
	ps := int(p.Cfg["psize0"])
	p.Cfg["ids"] = int64(sw.Range(ps+1, 4*ps+3))
	// fault kinds enabled in this run (a random subset; one run in four is fault-free)
	var fAbort, fCrash, fWrErr, fRdErr, fCold, fDrop int
	if sw.Intn(4) != 0 {
		fAbort, fCrash, fWrErr, fRdErr, fCold, fDrop = sw.Intn(2), sw.Intn(2), sw.Intn(2), sw.Intn(2), sw.Intn(2), sw.Intn(2)
	}
	n := sw.Range(30, 120)
	if tier == "thorough" {
		n = sw.Range(30, 400)
	}
	nids := int(p.Cfg["ids"])
	grow := true
	for i := 0; i < n; i++ {
		if r.Intn(20) == 0 {
			grow = !grow
		}
		wAdd, wRm := 16, 4
		if !grow {
			wAdd, wRm = 4, 12
		}
		ops := []string{"add", "addx", "rm", "rmx", "upd", "updf", "get", "scan", "rand", "save", "reopen", "commit", "abort", "block", "dropblock", "final", "cold", "rderr", "repair"}
		ws := []int{wAdd, wAdd / 4, wRm, wRm / 2, 3, 3, 3, 2, 2, 4, 2, 5, 2 * fAbort, 3, fDrop, 3, 2 * fCold, 3 * fRdErr, 1}
		op := ops[r.Pick(ws)]
		st := sim.Step{Op: op, A: r.Intn(maxLists)}
		sel := func() int64 { return int64(r.Pick([]int{4, 2, 3, 2, 3, 3, 3})) }
		switch op {
		case "add", "addx":
			st.I = []int64{int64(r.Intn(nids)), int64(r.Intn(1 << 20)), int64(r.Intn(3) * r.Intn(48))}
		case "rm", "rmx", "get":
			st.I = []int64{sel(), int64(r.Intn(64))}
		case "upd", "updf":
			st.I = []int64{sel(), int64(r.Intn(64)), int64(r.Intn(1 << 20)), int64(r.Intn(3) * r.Intn(48)), int64(r.Intn(8))}
		case "scan":
			st.I = []int64{int64(r.Intn(3)), int64(r.Intn(8))}
		case "rand":
			st.I = []int64{int64(r.Intn(1 << 30))}
		case "final":
			kind := 0
			switch {
			case fCrash == 1 && fWrErr == 1:
				kind = r.Pick([]int{2, 2, 3})
			case fCrash == 1:
				kind = 2 * r.Pick([]int{1, 2})
			case fWrErr == 1:
				kind = r.Pick([]int{1, 2})
			}
			st.I = []int64{int64(kind), int64(r.Intn(4))}
		case "rderr":
			st.I = []int64{int64(r.Intn(6))}
		}
		p.Steps = append(p.Steps, st)
	}
	return p
}

func init() {
	sim.Register(&sim.Check{
		ID: "C25", Title: "Partitions behave as a set under any operation sequence", World: "ledger",
		Gen: genC25, Exec: execC25,
		Quick: sim.Budget{Runs: 480, WallS: 60}, Thorough: sim.Budget{Runs: 12000, WallS: 1100},
		LevelText: "seeded search over operation sequences on the exported partitions API (CreateIfNotExists/GetPartitions, Add/AddX, UpdateItem/Update, Remove/RemoveX from any position, Get, Exist, Size, ForEach/ForEachPart, GetRandomItems, RepairPartitionLoc, Save) " +
			"through a real StateContext on a real trie on the simulated disk, partition size from 1, removed ids reused, two named lists sharing ids; transaction commit and abort, several load/Save cycles per transaction, blocks persisted by the shipped SaveChanges, " +
			"failed writes, process crash at a write index followed by a restart from the disk only, cold and warm state cache, injected read errors; after every step the API is compared with a Go map " +
			"(Size, Exist, Get value and location, every member exactly once in the iteration, all partitions but the last full, random samples are distinct members); a clean batch is evidence, not proof",
		LevelNote: "the fresh-object comparison runs after every Save (uncached view of the transaction trie), after every commit/abort (next transaction's view through the cache stack), after cold reloads and restarts; on the live object only Size and Exist are probed (in half of the runs) so that the object's own caches are populated by the plan's operations only; " +
			"block save is one atomic batch in the shipped code, so a crash leaves whole blocks saved or not; MPT, node DBs and the state cache live in github.com/0chain/common (outside /repo) and run as shipped",
		Technique: "deterministic simulation: model-based operation sequences with abort / failed-save / crash-restart / cold-cache / read-error faults, reference-set oracle",
		DesignRef: "6/C25", Regime: "single-threaded event loop",
		Components: sim.Components{
			Real: []string{"smartcontract/partitions (exported API)", "chaincore/chain/state (StateContext, cache stack)", "chaincore/chain (genesis, NewStateContext, SaveChanges)", "chaincore/block (state creation)", "0chain/common MPT, LevelNodeDB, PNodeDB, state cache"},
			Sim:  []string{"operation plans, item type (hand-written msgp codec)", "transaction commit/abort and block assembler", "finaliser (save order, rebase onto the persistent node DB)", "simulated disk (grocksdb replacement)", "reference set"},
			Stub: []string{"RocksDB (simulated disk)", "redis (in-memory datastore.Store)", "event DB (disabled)", "network/HTTP"},
		},
		Assumptions: []string{"callers Save a partitions object before the transaction ends or before loading the same list again (as every contract does)",
			"after ErrItemExist / ErrItemNotFound the object may still be used and saved (the contracts tolerate both)",
			"any other error aborts the transaction"},
	})
}
