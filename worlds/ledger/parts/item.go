// Package parts hosts the checks C25 (partitions behave as a set) and C20
// (the query database records every finalized bridge and pool event) on the
// ledger world (W1).
package parts

import (
	"bytes"
	"fmt"

	"github.com/tinylib/msgp/msgp"
)

// pItem is the sim-owned partition item: hand-written msgp codec and GetID, as
// the contracts' own item types have. Encoded as a 3-element array.
type pItem struct {
	ID  string
	V   int64
	Pad []byte
}

func (it *pItem) GetID() string { return it.ID }

func (it *pItem) MarshalMsg(b []byte) ([]byte, error) {
	o := msgp.Require(b, it.Msgsize())
	o = msgp.AppendArrayHeader(o, 3)
	o = msgp.AppendString(o, it.ID)
	o = msgp.AppendInt64(o, it.V)
	o = msgp.AppendBytes(o, it.Pad)
	return o, nil
}

func (it *pItem) UnmarshalMsg(b []byte) ([]byte, error) {
	n, b, err := msgp.ReadArrayHeaderBytes(b)
	if err != nil {
		return b, err
	}
	if n != 3 {
		return b, fmt.Errorf("pItem: array of %d", n)
	}
	if it.ID, b, err = msgp.ReadStringBytes(b); err != nil {
		return b, err
	}
	if it.V, b, err = msgp.ReadInt64Bytes(b); err != nil {
		return b, err
	}
	var pad []byte
	if pad, b, err = msgp.ReadBytesBytes(b, nil); err != nil {
		return b, err
	}
	it.Pad = append([]byte(nil), pad...)
	return b, nil
}

func (it *pItem) Msgsize() int {
	return msgp.ArrayHeaderSize + msgp.StringPrefixSize + len(it.ID) + msgp.Int64Size + msgp.BytesPrefixSize + len(it.Pad)
}

func (it pItem) equal(o pItem) bool {
	return it.ID == o.ID && it.V == o.V && bytes.Equal(it.Pad, o.Pad)
}

func (it pItem) String() string {
	return fmt.Sprintf("{%s v=%d pad=%d}", short(it.ID), it.V, len(it.Pad))
}

func short(s string) string {
	if len(s) > 8 {
		return s[:8]
	}
	return s
}
