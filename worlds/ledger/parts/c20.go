package parts

import (
	"context"
	"encoding/json"
	"fmt"
	"sort"
	"strings"

	"0chain.net/chaincore/block"
	"0chain.net/chaincore/state"
	"0chain.net/chaincore/transaction"
	"0chain.net/core/config"
	"0chain.net/core/encryption"
	"0chain.net/smartcontract/dbs/event"
	"0chain.net/smartcontract/stakepool"
	"0chain.net/smartcontract/zcnsc"
	"github.com/0chain/common/core/currency"

	"verif/sim"
	"verif/worlds/ledger"
	"verif/worlds/wkit"
)

// ---- C20: the query database records every finalized bridge and pool event -------------------------
//
// Real zcnsc burn / mint and storagesc read-pool transactions run through the
// ledger world; the event list of each sealed block (what Block.Events holds)
// goes through the shipped EventDb.MergeEvents (observation point: the tag
// handlers' input) and through the shipped EventDb.ProcessEvents + Commit into
// the repository's in-memory sqlite store (observation point: burn_tickets,
// authorizers rows). Handlers that issue Postgres-only SQL cannot run on sqlite
// and are observed at their input only (see LevelNote).

// tags whose handlers run on the sqlite store and are fed to ProcessEvents
var c20DBTags = map[event.EventTag]bool{
	event.TagAddBurnTicket:  true,
	event.TagAddAuthorizer:  true,
	event.TagInsertReadpool: true,
}

type authz struct {
	id   string
	pk   string
	keys encryption.SignatureScheme
}

type burnRec struct {
	hash, addr, burner string
	amount             currency.Coin
	nonce              int64
}

type mintRec struct {
	user    string
	nonce   int64
	amount  currency.Coin
	signers []string
}

// summary of the bridge / pool content of an event list
type evSummary struct {
	tickets   map[string]event.BurnTicket // by txn hash
	burnTotal map[string]uint64           // burner -> sum
	mints     map[string]event.BridgeMint // "user/nonce"
	mintTotal map[string]uint64           // signer -> sum (what the TagAddBridgeMint handler adds up)
	rpLock    map[string]int64            // client -> sum of read pool locks
	rpUnlock  map[string]int64
	rpBalance map[string]uint64 // user -> last read pool balance
	nTickets  int
	nMints    int
}

func newSummary() *evSummary {
	return &evSummary{tickets: map[string]event.BurnTicket{}, burnTotal: map[string]uint64{}, mints: map[string]event.BridgeMint{},
		mintTotal: map[string]uint64{}, rpLock: map[string]int64{}, rpUnlock: map[string]int64{}, rpBalance: map[string]uint64{}}
}

// each collects values of type T from an event's data: T, *T, []T or *[]T.
func each[T any](data any, f func(T)) bool {
	switch v := data.(type) {
	case T:
		f(v)
	case *T:
		if v != nil {
			f(*v)
		}
	case []T:
		for _, x := range v {
			f(x)
		}
	case *[]T:
		if v != nil {
			for _, x := range *v {
				f(x)
			}
		}
	default:
		return false
	}
	return true
}

func summarize(evs []event.Event) (*evSummary, string) {
	s := newSummary()
	bad := ""
	for _, e := range evs {
		if e.Type != event.TypeStats {
			continue
		}
		ok := true
		switch e.Tag {
		case event.TagAddBurnTicket:
			ok = each(e.Data, func(t event.BurnTicket) { s.tickets[t.Hash] = t; s.nTickets++ })
		case event.TagAuthorizerBurn:
			ok = each(e.Data, func(b state.Burn) { s.burnTotal[b.Burner] += uint64(b.Amount) })
		case event.TagAddBridgeMint:
			ok = each(e.Data, func(m event.BridgeMint) {
				s.mints[fmt.Sprintf("%s/%d", m.UserID, m.MintNonce)] = m
				s.nMints++
				for _, sg := range m.Signers {
					s.mintTotal[sg] += uint64(m.Amount)
				}
			})
		case event.TagLockReadPool:
			ok = each(e.Data, func(l event.ReadPoolLock) { s.rpLock[l.Client] += l.Amount })
		case event.TagUnlockReadPool:
			ok = each(e.Data, func(l event.ReadPoolLock) { s.rpUnlock[l.Client] += l.Amount })
		case event.TagInsertReadpool, event.TagUpdateReadpool:
			ok = each(e.Data, func(p event.ReadPool) { s.rpBalance[p.UserID] = uint64(p.Balance) })
		}
		if !ok {
			bad = fmt.Sprintf("tag %v carries %T", e.Tag, e.Data)
		}
	}
	return s, bad
}

type c20 struct {
	w     *ledger.World
	r     *ledger.Runner
	tr    *sim.Trace
	edb   *event.EventDb
	auths []*authz
	addrs []string

	burns     []burnRec // successful burns of the block under assembly (from the transaction outputs)
	mints     []mintRec
	allBurns  []burnRec
	nextMint  int64
	usedMint  []int64
	rows      map[string]event.BurnTicket // burn_tickets as last read, by hash
	dead      bool
	blockSeen int
}

func (d *c20) viol(oracle, sig, format string, a ...any) {
	d.tr.Violate(&sim.Violation{Prop: "C20", Oracle: oracle, Sig: "C20/" + sig, Detail: fmt.Sprintf(format, a...)})
}

var c20Tables = []string{"burn_tickets", "authorizers", "provider_rewards", "events", "read_pools", "users", "transactions", "blocks", "errors"}

func openEventDB() (*event.EventDb, error) {
	settings := config.DbSettings{AggregatePeriod: 1 << 40, PartitionChangePeriod: 1 << 40, PartitionKeepCount: 10,
		PermanentPartitionChangePeriod: 1 << 40, PermanentPartitionKeepCount: 10, PageLimit: 50}
	var edb *event.EventDb
	var err error
	for try := 0; try < 6; try++ {
		// the constructor starts the events worker, whose start-up SQL (Postgres
		// partition DDL, failing on sqlite) may collide with the migration
		if edb, err = event.NewInMemoryEventDb(config.DbAccess{}, settings); err == nil {
			break
		}
	}
	if err != nil {
		return nil, err
	}
	// the in-memory database is shared by every connection of the process: start from empty tables
	for _, t := range c20Tables {
		edb.Store.Get().Exec("DELETE FROM " + t)
	}
	edb.SetEventsCounter(0)
	return edb, nil
}

// deliver feeds one block's events to the shipped pipeline: ProcessEvents
// (merge, sequence numbers, worker, tag handlers inside a DB transaction), then
// commit. commitFails: the commit fails after a rollback of the connection
// (nothing persisted) and the block is delivered again.
func (d *c20) deliver(evs []event.Event, round int64, hash string, ntxn int, commitFails bool) error {
	ctx := context.Background()
	noStore := func(event.BlockEvents) error { return nil }
	cp := append([]event.Event(nil), evs...)
	tx, n, err := d.edb.ProcessEvents(ctx, cp, round, hash, ntxn, noStore)
	if err != nil {
		return err
	}
	if commitFails {
		if rerr := tx.Rollback(); rerr != nil {
			return fmt.Errorf("rollback: %v", rerr)
		}
		if cerr := tx.Commit(); cerr == nil {
			return fmt.Errorf("commit after a rolled-back connection reported success")
		}
		d.tr.Fault("db_commit_error")
		cp = append([]event.Event(nil), evs...)
		if tx, n, err = d.edb.ProcessEvents(ctx, cp, round, hash, ntxn, noStore); err != nil {
			return fmt.Errorf("retry: %v", err)
		}
	}
	if err := tx.Commit(); err != nil {
		return fmt.Errorf("commit: %v", err)
	}
	d.edb.AddToEventsCounter(uint64(n))
	return nil
}

func (d *c20) readRows() (map[string]event.BurnTicket, int, error) {
	out := map[string]event.BurnTicket{}
	n := 0
	for _, a := range d.addrs {
		ts, err := d.edb.GetBurnTickets(a)
		if err != nil {
			return nil, 0, err
		}
		for _, t := range ts {
			out[t.Hash] = t
			n++
		}
	}
	return out, n, nil
}

// finalizeBlock seals the block under assembly, persists it and runs the event pipeline with the oracle.
// fault: 0 none, 1 commit error then retry, 2 duplicate delivery of the block's events.
func (d *c20) finalizeBlock(fault int) {
	r := d.r
	r.EnsureBlock()
	bc := r.BC
	var evs []event.Event
	ntx := 0
	for _, o := range bc.Outs {
		if o.Err == nil {
			evs = append(evs, o.Events...)
			ntx++
		}
	}
	r.EndBlock(true)
	b := d.w.Head
	evs = append(evs, block.CreateFinalizeBlockEvent(b))
	burns, mints := d.burns, d.mints
	d.burns, d.mints = nil, nil
	d.blockSeen++

	// what the contracts emitted (cross-checked with the transaction outputs)
	emitted, bad := summarize(evs)
	if bad != "" {
		d.viol("emit", "emit/unexpected-data-type", "%s", bad)
		return
	}
	if len(emitted.tickets) != len(burns) || emitted.nTickets != len(burns) {
		d.viol("emit", "emit/burn-ticket-count", "%d successful burns, %d burn ticket events", len(burns), emitted.nTickets)
		return
	}
	for _, br := range burns {
		t, ok := emitted.tickets[br.hash]
		if !ok || t.EthereumAddress != br.addr || t.Amount != br.amount || t.Nonce != br.nonce {
			d.viol("emit", "emit/burn-ticket-fields", "burn %s (address %s amount %d nonce %d) emitted ticket %+v", short(br.hash), br.addr, br.amount, br.nonce, t)
			return
		}
	}
	if emitted.nMints != len(mints) {
		d.viol("emit", "emit/bridge-mint-count", "%d successful mints, %d bridge mint events", len(mints), emitted.nMints)
		return
	}
	same := map[string]int{}
	for _, br := range burns {
		same[br.addr]++
		if same[br.addr] == 2 {
			d.tr.Probe("block_with_burns_for_same_address")
		}
	}
	if len(same) > 1 {
		d.tr.Probe("block_with_burns_for_several_addresses")
	}
	mu := map[string]int{}
	for _, m := range mints {
		mu[m.user]++
		if mu[m.user] == 2 {
			d.tr.Probe("block_with_mints_for_same_client")
		}
	}
	if len(mints) > 0 {
		d.tr.Probe("block_with_mint")
	}

	// observation point 1: the tag handlers' input = output of the shipped merge
	cp := append([]event.Event(nil), evs...)
	be, _, err := d.edb.MergeEvents(cp, b.Round, b.Hash, ntx)
	if err != nil {
		d.viol("merge", "merge/error", "%v", err)
		return
	}
	merged, bad := summarize(be.Events())
	if bad != "" {
		d.viol("merge", "merge/unexpected-data-type", "%s", bad)
		return
	}
	d.tr.Event("block round=%d txns=%d burns=%d mints=%d merged: tickets=%d mints=%d", b.Round, ntx, len(burns), len(mints), merged.nTickets, merged.nMints)
	d.mergeOracle(emitted, merged)

	// a failed attempt to store a block's events is retried with the same in-memory event list
	// (finalizeBlock keeps fb.Events on error): merging that list again must give the same result
	if fault != 0 {
		d.tr.Fault("events_merged_again_for_retry")
		be2, _, err := d.edb.MergeEvents(append([]event.Event(nil), evs...), b.Round, b.Hash, ntx)
		if err != nil {
			d.viol("merge", "merge/error/retry", "%v", err)
			return
		}
		merged2, bad := summarize(be2.Events())
		if bad != "" {
			d.viol("merge", "merge/unexpected-data-type/retry", "%s", bad)
			return
		}
		nv := len(d.tr.Viol)
		d.mergeOracle(emitted, merged2)
		for _, v := range d.tr.Viol[nv:] {
			v.Sig += "/retry"
		}
	}

	// observation point 2: the sqlite store after ProcessEvents + Commit
	var dbEvs []event.Event
	for _, e := range evs {
		if e.Type == event.TypeStats && c20DBTags[e.Tag] {
			dbEvs = append(dbEvs, e)
		}
	}
	err = d.deliver(dbEvs, b.Round, b.Hash, ntx, fault == 1)
	d.tr.Event("deliver round=%d events=%d fault=%d ok=%v", b.Round, len(dbEvs), fault, err == nil)
	if err != nil {
		d.tr.Probe("deliver_failed")
		d.viol("db", "db/process-events-failed", "round %d: %v", b.Round, err)
		// the block's events were rolled back; nothing of it may be visible
	}
	d.dbOracle(burns, merged, err == nil)
	if fault == 2 {
		// which ticket the shipped handler stores depends on the iteration order of a Go map
		// (withUniqueEventOverwrite), so the outcome of a second delivery is not logged: only
		// invariants that hold for every order are checked afterwards
		d.tr.Fault("duplicate_block_events")
		if err2 := d.deliver(dbEvs, b.Round, b.Hash, ntx, false); err2 != nil {
			d.tr.Probe("duplicate_delivery_rejected")
		} else {
			d.tr.Probe("duplicate_delivery_accepted")
		}
		d.dbOracle(burns, merged, false)
	}
}

func keysOf[V any](m map[string]V) []string {
	ks := make([]string, 0, len(m))
	for k := range m {
		ks = append(ks, k)
	}
	sort.Strings(ks)
	return ks
}

// mergeOracle: merging a block's events never drops an event whose effect is additive or append-only.
func (d *c20) mergeOracle(em, mg *evSummary) {
	for _, h := range keysOf(em.tickets) {
		if _, ok := mg.tickets[h]; !ok {
			t := em.tickets[h]
			d.viol("merge", "merge/burn-ticket-dropped", "burn ticket of txn %s (address %s nonce %d) is absent from the merged event list (%d of %d tickets left)", short(h), t.EthereumAddress, t.Nonce, len(mg.tickets), len(em.tickets))
			break
		}
	}
	if mg.nTickets > len(em.tickets) {
		d.viol("merge", "merge/burn-ticket-duplicated", "%d tickets after merging %d", mg.nTickets, len(em.tickets))
	}
	for _, b := range keysOf(em.burnTotal) {
		if mg.burnTotal[b] != em.burnTotal[b] {
			d.viol("merge", "merge/authorizer-burn-total-changed", "burner %s: burns of %d emitted, the merged burn events sum to %d", short(b), em.burnTotal[b], mg.burnTotal[b])
			break
		}
	}
	for _, k := range keysOf(em.mints) {
		if _, ok := mg.mints[k]; !ok {
			d.viol("merge", "merge/bridge-mint-dropped", "mint %s is absent from the merged event list (%d of %d left)", k[max(0, len(k)-12):], len(mg.mints), len(em.mints))
			break
		}
	}
	for _, s := range keysOf(em.mintTotal) {
		if mg.mintTotal[s] != em.mintTotal[s] {
			d.viol("merge", "merge/authorizer-mint-total-changed", "authorizer %s: mints of %d emitted, the merged mint events sum to %d", short(s), em.mintTotal[s], mg.mintTotal[s])
			break
		}
	}
	for _, c := range keysOf(em.rpLock) {
		if mg.rpLock[c] != em.rpLock[c] {
			d.viol("merge", "merge/read-pool-lock-total-changed", "client %s: locks of %d emitted, merged %d", short(c), em.rpLock[c], mg.rpLock[c])
			break
		}
		if em.rpLock[c] > 0 {
			d.tr.Probe("read_pool_lock_merged")
		}
	}
	for _, c := range keysOf(em.rpUnlock) {
		if mg.rpUnlock[c] != em.rpUnlock[c] {
			d.viol("merge", "merge/read-pool-unlock-total-changed", "client %s: unlocks of %d emitted, merged %d", short(c), em.rpUnlock[c], mg.rpUnlock[c])
			break
		}
	}
	for _, u := range keysOf(em.rpBalance) {
		if mg.rpBalance[u] != em.rpBalance[u] {
			d.viol("merge", "merge/read-pool-balance-stale", "user %s: last emitted balance %d, merged events end at %d", short(u), em.rpBalance[u], mg.rpBalance[u])
			break
		}
	}
}

// dbOracle: one burn_tickets row per burn of the block; nothing else changes in the table.
func (d *c20) dbOracle(burns []burnRec, merged *evSummary, delivered bool) {
	rows, n, err := d.readRows()
	if err != nil {
		d.viol("db", "db/read-error", "%v", err)
		d.dead = true
		return
	}
	if n != len(rows) {
		d.viol("db", "db/burn-ticket-duplicated", "%d rows for %d distinct burn transactions", n, len(rows))
	}
	inBlock := map[string]burnRec{}
	for _, br := range burns {
		inBlock[br.hash] = br
	}
	for _, h := range keysOf(d.rows) {
		if _, ok := rows[h]; !ok {
			d.viol("db", "db/burn-ticket-row-lost", "row of burn %s disappeared", short(h))
		}
	}
	for _, h := range keysOf(rows) {
		if _, old := d.rows[h]; old {
			continue
		}
		br, ok := inBlock[h]
		t := rows[h]
		if !ok {
			d.viol("db", "db/unexpected-burn-ticket-row", "new row %+v does not belong to a burn of this block", t)
			continue
		}
		if t.EthereumAddress != br.addr || t.Amount != br.amount || t.Nonce != br.nonce {
			d.viol("db", "db/burn-ticket-fields", "burn %s (address %s amount %d nonce %d) recorded as %s/%d/%d", short(h), br.addr, br.amount, br.nonce, t.EthereumAddress, t.Amount, t.Nonce)
		}
	}
	if delivered {
		// decided on counts only: which of the merged tickets the shipped handler stores depends
		// on a Go map's iteration order
		notStored, example := 0, burnRec{}
		for _, br := range burns {
			if _, ok := rows[br.hash]; ok {
				d.tr.Probe("burn_ticket_recorded")
				continue
			}
			if _, inInput := merged.tickets[br.hash]; inInput {
				notStored++
				example = br
			} else {
				// already reported by the merge oracle for this block
				d.tr.Probe("burn_ticket_lost_before_handler")
			}
		}
		if notStored > 0 {
			d.viol("handler", "handler/burn-ticket-not-stored", "%d of the %d tickets that reached the TagAddBurnTicket handler have no burn_tickets row (e.g. burn %s, address %s nonce %d)", notStored, len(merged.tickets), short(example.hash), example.addr, example.nonce)
		}
	}
	d.rows = rows
}

// historyOracle: over the whole run, the table holds exactly one row per successful burn.
func (d *c20) historyOracle() {
	rows, n, err := d.readRows()
	if err != nil {
		d.viol("db", "db/read-error", "%v", err)
		return
	}
	by := map[string]burnRec{}
	for _, br := range d.allBurns {
		by[br.hash] = br
	}
	if n != len(rows) {
		d.viol("db", "db/burn-ticket-duplicated", "%d rows for %d distinct burn transactions", n, len(rows))
	}
	for _, h := range keysOf(rows) {
		br, ok := by[h]
		t := rows[h]
		if !ok {
			d.viol("db", "db/unexpected-burn-ticket-row", "row %+v does not belong to a burn of this run", t)
		} else if t.EthereumAddress != br.addr || t.Amount != br.amount || t.Nonce != br.nonce {
			d.viol("db", "db/burn-ticket-fields", "burn %s (address %s amount %d nonce %d) recorded as %s/%d/%d", short(h), br.addr, br.amount, br.nonce, t.EthereumAddress, t.Amount, t.Nonce)
		}
	}
	missing := 0
	for h := range by {
		if _, ok := rows[h]; !ok {
			missing++
		}
	}
	d.tr.Event("history burns=%d", len(by))
	if missing > 0 {
		d.tr.Probe("history_burns_without_ticket")
		if !d.tr.Failed() {
			// safety net: every loss must already have been attributed to the merge or to the handler
			d.viol("db", "history/burn-without-ticket", "%d of %d burns have no burn_tickets row and no block-level oracle reported it", missing, len(by))
		}
	}
}

// ---- transactions ---------------------------------------------------------------------------------------

func (d *c20) nonceOf(id string) int64 {
	_, n, _ := ledger.Balance(d.r.BC.State, id)
	return n + 1
}

func (d *c20) burn(ci int, ai int, vk int64) {
	d.r.EnsureBlock()
	cl := d.w.Clients[ci%len(d.w.Clients)]
	addr := d.addrs[ai%len(d.addrs)]
	val := []int64{1e10, 2e10, 5e10 + 7, 1}[vk%4]
	t := d.w.MakeTxn(ledger.TxnSpec{From: cl.ID, To: ledger.AddrZCN, Type: transaction.TxnTypeSmartContract, Name: zcnsc.BurnFunc,
		Input: &zcnsc.BurnPayload{EthereumAddress: addr}, Value: val, Nonce: d.nonceOf(cl.ID)})
	o := d.r.Submit(t)
	if o.Class != ledger.Success {
		d.tr.Probe("burn_failed")
		return
	}
	var resp zcnsc.BurnPayloadResponse
	if err := json.Unmarshal([]byte(t.TransactionOutput), &resp); err != nil {
		d.viol("emit", "burn/output-not-json", "%v", err)
		return
	}
	br := burnRec{hash: t.Hash, addr: resp.EthereumAddress, burner: cl.ID, amount: resp.Amount, nonce: resp.Nonce}
	if resp.TxnID != t.Hash || resp.EthereumAddress != addr || resp.Amount != currency.Coin(val) {
		d.viol("emit", "burn/response-fields", "burn of %d to %s answered %+v", val, addr, resp)
		return
	}
	d.burns = append(d.burns, br)
	d.allBurns = append(d.allBurns, br)
}

func (d *c20) mint(ci int, nk int64, mask int64, ak int64) {
	d.r.EnsureBlock()
	cl := d.w.Clients[ci%len(d.w.Clients)]
	nonce := d.nextMint + 1
	replay := nk%5 == 4 && len(d.usedMint) > 0
	if replay {
		nonce = d.usedMint[int(nk/5)%len(d.usedMint)]
	}
	amount := currency.Coin([]int64{2e12, 3e12 + 11, 1e12}[ak%3])
	mp := &zcnsc.MintPayload{EthereumTxnID: fmt.Sprintf("0x%x", sim.Hash64("eth", fmt.Sprint(nonce), cl.ID)), Amount: amount, Nonce: nonce, ReceivingClientID: cl.ID}
	toSign := mp.GetStringToSign()
	for i, a := range d.auths {
		if mask&(1<<uint(i)) == 0 && mask%8 != 0 {
			continue
		}
		sig, err := a.keys.Sign(toSign)
		if err != nil {
			panic(err)
		}
		mp.Signatures = append(mp.Signatures, &zcnsc.AuthorizerSignature{ID: a.id, Signature: sig})
	}
	t := d.w.MakeTxn(ledger.TxnSpec{From: cl.ID, To: ledger.AddrZCN, Type: transaction.TxnTypeSmartContract, Name: zcnsc.MintFunc,
		Raw: string(mp.Encode()), Nonce: d.nonceOf(cl.ID)})
	o := d.r.Submit(t)
	if o.Class != ledger.Success {
		if replay {
			d.tr.Probe("mint_replay_rejected")
		} else {
			d.tr.Probe("mint_failed")
		}
		return
	}
	if replay {
		d.tr.Probe("mint_replay_accepted")
	}
	var out zcnsc.MintPayload
	if err := out.Decode([]byte(t.TransactionOutput)); err != nil {
		d.viol("emit", "mint/output-not-json", "%v", err)
		return
	}
	m := mintRec{user: cl.ID, nonce: out.Nonce, amount: out.Amount}
	for _, s := range out.Signatures {
		m.signers = append(m.signers, s.ID)
	}
	d.mints = append(d.mints, m)
	if !replay {
		d.nextMint = nonce
		d.usedMint = append(d.usedMint, nonce)
	}
}

func (d *c20) pool(ci int, kind int64) {
	d.r.EnsureBlock()
	cl := d.w.Clients[ci%len(d.w.Clients)]
	name, val := "read_pool_lock", int64(1e10+3)
	if kind%4 == 3 {
		name, val = "read_pool_unlock", 0
	}
	t := d.w.MakeTxn(ledger.TxnSpec{From: cl.ID, To: ledger.AddrStorage, Type: transaction.TxnTypeSmartContract, Name: name, Raw: "{}", Value: val, Nonce: d.nonceOf(cl.ID)})
	o := d.r.Submit(t)
	if o.Class == ledger.Success {
		d.tr.Probe("pool_update_applied:" + name)
	}
}

func (d *c20) bootstrap(na int) bool {
	keys := sim.NewRNG(d.w.Seed).Child("keys")
	d.r.EnsureBlock()
	for i := 0; i < na; i++ {
		ks := wkit.NewKeys(d.w.Cfg.Scheme, keys.Child(fmt.Sprintf("authorizer/%d", i)))
		pk := ks.GetPublicKey()
		pkb := make([]byte, len(pk)/2)
		if _, err := fmt.Sscanf(pk, "%x", &pkb); err != nil {
			panic(err)
		}
		a := &authz{id: encryption.Hash(pkb), pk: pk, keys: ks}
		in := &zcnsc.AddAuthorizerPayload{PublicKey: pk, URL: fmt.Sprintf("https://auth%d.sim", i),
			StakePoolSettings: stakepool.Settings{DelegateWallet: d.w.Clients[0].ID, MaxNumDelegates: 5, ServiceChargeRatio: 0.1}}
		t := d.w.MakeTxn(ledger.TxnSpec{From: d.w.OwnerID, To: ledger.AddrZCN, Type: transaction.TxnTypeSmartContract, Name: zcnsc.AddAuthorizerFunc,
			Input: in, Nonce: d.nonceOf(d.w.OwnerID)})
		o := d.r.Submit(t)
		if o.Class != ledger.Success {
			d.tr.Event("bootstrap add-authorizer failed: %v %s", o.Err, t.TransactionOutput)
			return false
		}
		d.auths = append(d.auths, a)
	}
	d.finalizeBlock(0)
	// the real TagAddAuthorizer handler must have created the rows
	for _, a := range d.auths {
		if _, err := d.edb.GetAuthorizer(a.id); err != nil {
			d.viol("db", "db/authorizer-row-missing", "%v", err)
			return false
		}
	}
	return true
}

func execC20(env *sim.Env, p *sim.Plan) *sim.Result {
	tr := sim.NewTrace()
	tr.Keep = env.KeepLog
	cfg := ledger.CfgFromPlan(p)
	w := ledger.NewWorld(p.Seed, cfg, tr)
	defer w.Close()
	edb, err := openEventDB()
	if err != nil {
		panic(fmt.Sprintf("cannot open the in-memory event DB: %v", err))
	}
	defer edb.Close()
	d := &c20{w: w, tr: tr, edb: edb, rows: map[string]event.BurnTicket{}}
	d.r = ledger.NewRunner(w)
	d.r.Plan = p
	ar := sim.NewRNG(p.Seed).Child("eth")
	for i := 0; i < int(p.CfgInt("addrs", 2)); i++ {
		d.addrs = append(d.addrs, fmt.Sprintf("0x%x", ar.Bytes(20)))
	}
	if !d.bootstrap(int(p.CfgInt("auths", 2))) {
		if !tr.Failed() {
			panic("C20 bootstrap failed: " + strings.Join(tr.Lines, " | "))
		}
		return tr.Result(p.Seed)
	}
	for _, st := range p.Steps {
		if d.dead || (tr.Failed() && !knownOnly(tr)) {
			break
		}
		switch st.Op {
		case "burn":
			d.burn(st.A, int(st.Int(0, 0)), st.Int(1, 0))
		case "mint":
			d.mint(st.A, st.Int(0, 0), st.Int(1, 0), st.Int(2, 0))
		case "pool":
			d.pool(st.A, st.Int(0, 0))
		case "block":
			d.finalizeBlock(int(st.Int(0, 0)) % 3)
		default:
			d.r.Step(st)
		}
	}
	if !d.dead && (!tr.Failed() || knownOnly(tr)) {
		d.finalizeBlock(0)
		d.historyOracle()
	}
	return tr.Result(p.Seed)
}

func genC20(seed uint64, tier string) *sim.Plan {
	root := sim.NewRNG(seed)
	sw := root.Child("swarm")
	r := root.Child("plan")
	p := &sim.Plan{Cfg: map[string]int64{
		"clients":  int64(sw.Range(2, 4)),
		"miners":   1,
		"sharders": 1,
		"fees":     int64(sw.Intn(2)),
		"funding":  1e14,
		"ed25519":  int64(sw.Pick([]int{2, 1})),
		"auths":    int64(sw.Range(1, 3)),
		"addrs":    int64(sw.Range(1, 3)),
	}}
	faults := sw.Intn(3) != 0
	n := sw.Range(10, 50)
	if tier == "thorough" {
		n = sw.Range(10, 160)
	}
	wBlock := sw.Range(1, 4)
	for i := 0; i < n; i++ {
		op := []string{"burn", "mint", "pool", "block", "send", "clock"}[r.Pick([]int{8, 5, 3, wBlock, 1, 1})]
		st := sim.Step{Op: op, A: r.Intn(4)}
		switch op {
		case "burn":
			st.I = []int64{int64(r.Intn(3)), int64(r.Pick([]int{4, 3, 2, 1}))}
		case "mint":
			st.I = []int64{int64(r.Intn(25)), int64(r.Intn(8)), int64(r.Intn(3))}
		case "pool":
			st.I = []int64{int64(r.Intn(4))}
		case "block":
			f := 0
			if faults {
				f = r.Pick([]int{3, 1, 1})
			}
			st.I = []int64{int64(f)}
		case "send":
			st.I = []int64{int64(r.Intn(6)), ledger.VSmall, 0, ledger.NExpected}
		case "clock":
			st.I = []int64{int64(1 + r.Intn(30))}
		}
		p.Steps = append(p.Steps, st)
	}
	return p
}

func init() {
	sim.Register(&sim.Check{
		ID: "C20", Title: "The query database records every finalized bridge and pool event", World: "ledger",
		Gen: genC20, Exec: execC20,
		Quick: sim.Budget{Runs: 320, WallS: 60}, Thorough: sim.Budget{Runs: 8000, WallS: 1100},
		LevelText: "seeded search over blocks whose event lists come from real zcnsc burn / mint transactions (authorizers registered by real add-authorizer transactions, mint payloads signed by their seeded keys, nonce replays) and storagesc read_pool_lock / read_pool_unlock transactions, " +
			"several per block for the same client and the same Ethereum address; each sealed block's event list goes through the shipped EventDb.MergeEvents (handlers' input compared with what the contracts emitted: every burn ticket and mint present, per-burner / per-authorizer / per-client sums preserved, last pool balance kept) " +
			"and through the shipped EventDb.ProcessEvents + Commit into the repository's in-memory sqlite store (one burn_tickets row per burn with address, amount, nonce; no other row changes); faults: commit error then retry, duplicate delivery of a block's events",
		LevelNote: "input-class property hosted in the simulation: schedules contribute nothing. Stubbed handlers: updateAuthorizersTotalBurn, updateAuthorizersTotalMint (TagAuthorizerBurn, TagAddBridgeMint) and updateReadPool (TagUpdateReadpool) issue Postgres-only SQL (UPDATE ... FROM unnest(?::bigint[])) and cannot run on sqlite; they are observed at their input (the merged event list) and their events are not fed to the store. " +
			"Only TagAddBurnTicket, TagAddAuthorizer and TagInsertReadpool events are fed to ProcessEvents; the events worker's partition DDL fails on sqlite (ignored by the shipped code). Kafka is disabled. By reading only (not demonstrable on sqlite): updateAuthorizersTotalMint keys its update by Mint.ToClientID, which the TagAddBridgeMint handler leaves empty",
		Technique: "deterministic simulation: real contract transactions produce the events, shipped merge + handlers + sqlite store, history oracle from transaction outputs; commit-error and duplicate-delivery faults",
		DesignRef: "6/C20", Regime: "single-threaded event loop (the events worker goroutine is driven synchronously by ProcessEvents)",
		Components: sim.Components{
			Real: []string{"smartcontract/zcnsc (burn, mint, add-authorizer)", "smartcontract/storagesc (read_pool_lock, read_pool_unlock)", "chaincore/chain (UpdateState, SaveChanges)", "smartcontract/dbs/event (MergeEvents/mergeEvents, ProcessEvents, events worker, addEvents, TagAddBurnTicket / TagAddAuthorizer / TagInsertReadpool handlers, GetBurnTickets, GetAuthorizer)", "smartcontract/dbs/sqlite (in-memory store, gorm, go-sqlite3)"},
			Sim:  []string{"clients, authorizer keys, block assembler", "finaliser (event list of a block -> ProcessEvents -> Commit)", "simulated disk", "reference history"},
			Stub: []string{"Postgres (sqlite store instead)", "Kafka (disabled)", "handlers updateAuthorizersTotalBurn / updateAuthorizersTotalMint / updateReadPool (Postgres-only SQL): observed at their input", "all other tag handlers: not fed"},
		},
		Assumptions: []string{"a block's event list is the concatenation of the events UpdateState returned for its applied transactions plus the finalize-block event (as Block.Events is built)",
			"a failed commit leaves nothing of the block in the store and the block is delivered again"},
	})
}
