// Package ledger is world W1: a real chain.Chain with all smart contracts on a
// simulated disk, driven one transaction at a time through the shipped
// Chain.UpdateState, with sim-owned clients, block assembler, replicas and
// reference models.
package ledger

import (
	"context"
	"os"
	"path/filepath"
	"sync"

	"0chain.net/chaincore/block"
	"0chain.net/chaincore/chain"
	"0chain.net/chaincore/client"
	"0chain.net/chaincore/round"
	"0chain.net/chaincore/transaction"
	"0chain.net/core/common"
	"0chain.net/core/config"
	"0chain.net/core/viper"
	"0chain.net/smartcontract/setupsc"

	"verif/worlds/wkit"
)

var (
	bootOnce sync.Once
	// Store is the process-wide datastore seam (transaction pool, clients).
	Store *wkit.MemStore
	// RepoRoot is the repository root whose docker.local/config is used.
	RepoRoot = "/repo"
)

func repoRoot() string {
	if r := os.Getenv("VERIF_REPO_ROOT"); r != "" {
		return r
	}
	return RepoRoot
}

// Boot performs the process-global initialisation exactly once. Everything
// that depends on the plan is (re)applied per run in NewWorld.
func Boot() {
	bootOnce.Do(func() {
		wkit.Quiet()
		cfgDir := filepath.Join(repoRoot(), "docker.local")
		config.SetupDefaultConfig()
		config.SetupConfig(cfgDir)
		config.SetupSmartContractConfig(cfgDir)
		for _, sc := range []string{"faucet", "storage", "zcn", "multisig", "miner", "vesting"} {
			viper.Set("server_chain.smart_contract."+sc, true)
		}
		viper.Set("server_chain.dbs.events.enabled", false)
		config.SetServerChainID(config.GetMainChainID())
		setupsc.SetupSmartContracts()
		common.SetupRootContext(context.Background())
		// context.Done() creates its channel lazily: create it here, outside any synctest
		// bubble, or worker goroutines started by Boot would later select on a bubbled channel
		_ = common.GetRootContext().Done()
		Store = wkit.NewMemStore()
		transaction.SetupEntity(Store)
		block.SetupEntity(Store)
		block.SetupBlockSummaryEntity(Store)
		block.SetupStateChange(Store)
		client.SetupEntity(Store)
		round.SetupEntity(Store)
		chain.SetupEntity(Store, "/simdisk/boot")
		// the node status monitor is not running: drain its (buffered) trigger channel
		go func() {
			for range chain.UpdateNodes {
			}
		}()
	})
}
