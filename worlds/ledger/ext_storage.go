package ledger

// Extension points for workload sub-packages (added for verif/worlds/ledger/storage).

// Observers returns the observers currently attached to the world, in call order.
func (w *World) Observers() []Observer { return w.obs }

// FindC04 returns the debit-authorisation oracle when the running check
// attached one (check C04), else nil. A workload that issues a transaction
// which legitimately debits a third account (e.g. a free-storage grant whose
// marker the workload verified itself against the registered assigner key)
// registers the maximum debit in Auth before submitting the transaction:
//
//	if c := w.FindC04(); c != nil { c.Auth[account] = maxDebit }
//
// Auth is cleared by the oracle after every transaction.
func (w *World) FindC04() *OracleC04 {
	for _, o := range w.obs {
		if c, ok := o.(*OracleC04); ok {
			return c
		}
	}
	return nil
}
