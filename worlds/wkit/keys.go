// Package wkit holds helpers shared by all worlds: seeded key generation,
// silent logging, small utilities. Nothing in here draws randomness from
// anywhere but the RNG it is given.
package wkit

import (
	"crypto/ed25519"
	"encoding/hex"
	"strings"
	"sync"

	"0chain.net/core/encryption"
	"github.com/0chain/common/core/logging"
	"github.com/herumi/bls-go-binary/bls"
	"go.uber.org/zap"

	"verif/sim"
)

var logOnce sync.Once

// Quiet installs no-op loggers (the node logs JSON lines at info level).
func Quiet() {
	logOnce.Do(func() {
		nop := zap.NewNop()
		logging.Logger = nop
		logging.N2n = nop
		logging.MemUsage = nop
		logging.HCLogger = nop
	})
}

var blsMu sync.Mutex

// NewKeys returns a signature scheme of the given type ("bls0chain" or
// "ed25519") with a key pair derived from rng only.
func NewKeys(scheme string, rng *sim.RNG) encryption.SignatureScheme {
	switch scheme {
	case "ed25519":
		pub, priv, err := ed25519.GenerateKey(rng)
		if err != nil {
			panic(err)
		}
		ss := encryption.NewED25519Scheme()
		if err := ss.ReadKeys(strings.NewReader(hex.EncodeToString(pub) + "\n" + hex.EncodeToString(priv) + "\n")); err != nil {
			panic(err)
		}
		return ss
	default:
		blsMu.Lock()
		defer blsMu.Unlock()
		var sk bls.SecretKey
		// derive the secret key from 32 seeded bytes (little endian, reduced)
		b := rng.Bytes(32)
		b[31] &= 0x0f
		if err := sk.SetLittleEndianMod(b); err != nil {
			panic(err)
		}
		pk := sk.GetPublicKey().SerializeToHexStr()
		ss := encryption.NewBLS0ChainScheme()
		if err := ss.ReadKeys(strings.NewReader(pk + "\n" + hex.EncodeToString(sk.GetLittleEndian()) + "\n")); err != nil {
			panic(err)
		}
		return ss
	}
}

// SeedBLS points herumi's random source at rng (DKG polynomial generation).
func SeedBLS(rng *sim.RNG) {
	blsMu.Lock()
	defer blsMu.Unlock()
	bls.SetRandFunc(rng)
}
