package wkit

import (
	"sync"

	"0chain.net/core/memorystore"
	"github.com/gomodule/redigo/redis"
)

// nopRedisConn is a redis connection that talks to nobody. The node code that
// manages the transaction pool wraps its contexts with a redis connection of
// the "txndb" pool (memorystore.WithEntityConnection) even when the entity's
// datastore.Store is not redis; with the in-memory store the connection is
// never used, it only has to exist.
type nopRedisConn struct{}

func (nopRedisConn) Close() error                                      { return nil }
func (nopRedisConn) Err() error                                        { return nil }
func (nopRedisConn) Do(string, ...interface{}) (interface{}, error)    { return nil, nil }
func (nopRedisConn) Send(string, ...interface{}) error                 { return nil }
func (nopRedisConn) Flush() error                                      { return nil }
func (nopRedisConn) Receive() (interface{}, error)                     { return nil, nil }

var fakePools sync.Map

// FakeRedisPool registers a no-op redis pool under the given db id (e.g.
// "txndb") once per process.
func FakeRedisPool(dbid string) {
	if _, loaded := fakePools.LoadOrStore(dbid, true); loaded {
		return
	}
	memorystore.AddPool(dbid, &redis.Pool{
		MaxIdle: 4,
		Dial:    func() (redis.Conn, error) { return nopRedisConn{}, nil },
	})
}
