package wkit

import (
	"context"
	"errors"
	"sort"
	"sync"

	"0chain.net/core/datastore"
)

// MemStore is a deterministic in-memory datastore.Store: the seam the node
// already has for redis / the transaction pool. Entities are stored msgpack
// encoded (as the redis store does), collections iterate by descending score
// then key.
type MemStore struct {
	mu   sync.Mutex
	data map[string]map[string][]byte           // entity name -> key -> bytes
	coll map[string]map[string]int64            // collection name -> key -> score
	Ops  map[string]int
	Fail func(op string, name string) error // fault hook
	// IterHook, when set, is called before the i-th entity (0-based) of an
	// IterateCollection is handed to the handler: a fault point for slow pool
	// iteration (the hook may sleep on the simulated clock). Cleared by Reset.
	IterHook func(ctx context.Context, collection string, i int)
}

func NewMemStore() *MemStore {
	return &MemStore{data: map[string]map[string][]byte{}, coll: map[string]map[string]int64{}, Ops: map[string]int{}}
}

// Reset drops everything (start of a run).
func (m *MemStore) Reset() {
	m.mu.Lock()
	defer m.mu.Unlock()
	m.data = map[string]map[string][]byte{}
	m.coll = map[string]map[string]int64{}
	m.Ops = map[string]int{}
	m.Fail = nil
	m.IterHook = nil
}

var ErrNotFound = errors.New("entity not found")

func (m *MemStore) pre(op, name string) error {
	m.Ops[op]++
	if m.Fail != nil {
		return m.Fail(op, name)
	}
	return nil
}

func (m *MemStore) Read(ctx context.Context, key datastore.Key, entity datastore.Entity) error {
	m.mu.Lock()
	defer m.mu.Unlock()
	name := entity.GetEntityMetadata().GetName()
	if err := m.pre("read", name); err != nil {
		return err
	}
	b, ok := m.data[name][datastore.ToString(key)]
	if !ok {
		return errors.New("entity_not_found: " + name + " " + datastore.ToString(key))
	}
	if err := datastore.FromMsgpack(b, entity); err != nil {
		return err
	}
	return entity.ComputeProperties()
}

func (m *MemStore) writeLocked(entity datastore.Entity) {
	name := entity.GetEntityMetadata().GetName()
	if m.data[name] == nil {
		m.data[name] = map[string][]byte{}
	}
	buf := datastore.ToMsgpack(entity)
	m.data[name][datastore.ToString(entity.GetKey())] = append([]byte(nil), buf.Bytes()...)
	if ce, ok := entity.(datastore.CollectionEntity); ok {
		cn := ce.GetCollectionName()
		if m.coll[cn] == nil {
			m.coll[cn] = map[string]int64{}
		}
		ce.InitCollectionScore()
		m.coll[cn][datastore.ToString(entity.GetKey())] = ce.GetCollectionScore()
	}
}

func (m *MemStore) Write(ctx context.Context, entity datastore.Entity) error {
	m.mu.Lock()
	defer m.mu.Unlock()
	if err := m.pre("write", entity.GetEntityMetadata().GetName()); err != nil {
		return err
	}
	m.writeLocked(entity)
	return nil
}

func (m *MemStore) InsertIfNE(ctx context.Context, entity datastore.Entity) error {
	m.mu.Lock()
	defer m.mu.Unlock()
	name := entity.GetEntityMetadata().GetName()
	if err := m.pre("insert", name); err != nil {
		return err
	}
	if _, ok := m.data[name][datastore.ToString(entity.GetKey())]; ok {
		return nil
	}
	m.writeLocked(entity)
	return nil
}

func (m *MemStore) deleteLocked(entity datastore.Entity) {
	name := entity.GetEntityMetadata().GetName()
	k := datastore.ToString(entity.GetKey())
	delete(m.data[name], k)
	if ce, ok := entity.(datastore.CollectionEntity); ok {
		delete(m.coll[ce.GetCollectionName()], k)
	}
}

func (m *MemStore) Delete(ctx context.Context, entity datastore.Entity) error {
	m.mu.Lock()
	defer m.mu.Unlock()
	if err := m.pre("delete", entity.GetEntityMetadata().GetName()); err != nil {
		return err
	}
	m.deleteLocked(entity)
	return nil
}

func (m *MemStore) Merge(ctx context.Context, entity datastore.Entity) error {
	return m.Write(ctx, entity)
}

func (m *MemStore) MultiRead(ctx context.Context, em datastore.EntityMetadata, keys []datastore.Key, entities []datastore.Entity) error {
	m.mu.Lock()
	defer m.mu.Unlock()
	name := em.GetName()
	if err := m.pre("multiread", name); err != nil {
		return err
	}
	for i, k := range keys {
		b, ok := m.data[name][datastore.ToString(k)]
		if !ok {
			// the redis store leaves the entity with an empty key
			entities[i].SetKey(datastore.EmptyKey)
			continue
		}
		if err := datastore.FromMsgpack(b, entities[i]); err != nil {
			return err
		}
		if err := entities[i].ComputeProperties(); err != nil {
			return err
		}
	}
	return nil
}

func (m *MemStore) MultiWrite(ctx context.Context, em datastore.EntityMetadata, entities []datastore.Entity) error {
	m.mu.Lock()
	defer m.mu.Unlock()
	if err := m.pre("multiwrite", em.GetName()); err != nil {
		return err
	}
	for _, e := range entities {
		m.writeLocked(e)
	}
	return nil
}

func (m *MemStore) MultiDelete(ctx context.Context, em datastore.EntityMetadata, entities []datastore.Entity) error {
	m.mu.Lock()
	defer m.mu.Unlock()
	if err := m.pre("multidelete", em.GetName()); err != nil {
		return err
	}
	for _, e := range entities {
		m.deleteLocked(e)
	}
	return nil
}

func (m *MemStore) AddToCollection(ctx context.Context, ce datastore.CollectionEntity) error {
	m.mu.Lock()
	defer m.mu.Unlock()
	cn := ce.GetCollectionName()
	if m.coll[cn] == nil {
		m.coll[cn] = map[string]int64{}
	}
	m.coll[cn][datastore.ToString(ce.GetKey())] = ce.GetCollectionScore()
	return nil
}

func (m *MemStore) MultiAddToCollection(ctx context.Context, em datastore.EntityMetadata, entities []datastore.Entity) error {
	for _, e := range entities {
		if ce, ok := e.(datastore.CollectionEntity); ok {
			if err := m.AddToCollection(ctx, ce); err != nil {
				return err
			}
		}
	}
	return nil
}

func (m *MemStore) DeleteFromCollection(ctx context.Context, ce datastore.CollectionEntity) error {
	m.mu.Lock()
	defer m.mu.Unlock()
	delete(m.coll[ce.GetCollectionName()], datastore.ToString(ce.GetKey()))
	return nil
}

func (m *MemStore) MultiDeleteFromCollection(ctx context.Context, em datastore.EntityMetadata, entities []datastore.Entity) error {
	for _, e := range entities {
		if ce, ok := e.(datastore.CollectionEntity); ok {
			if err := m.DeleteFromCollection(ctx, ce); err != nil {
				return err
			}
		}
	}
	return nil
}

func (m *MemStore) GetCollectionSize(ctx context.Context, em datastore.EntityMetadata, collectionName string) int64 {
	m.mu.Lock()
	defer m.mu.Unlock()
	return int64(len(m.coll[collectionName]))
}

// IterateCollection iterates by descending score, ties by key, over a snapshot.
func (m *MemStore) IterateCollection(ctx context.Context, em datastore.EntityMetadata, collectionName string, handler datastore.CollectionIteratorHandler) error {
	m.mu.Lock()
	type ks struct {
		k string
		s int64
	}
	var keys []ks
	for k, s := range m.coll[collectionName] {
		keys = append(keys, ks{k, s})
	}
	sort.Slice(keys, func(i, j int) bool {
		if keys[i].s != keys[j].s {
			return keys[i].s > keys[j].s
		}
		return keys[i].k < keys[j].k
	})
	name := em.GetName()
	var ents []datastore.CollectionEntity
	for _, e := range keys {
		b, ok := m.data[name][e.k]
		if !ok {
			continue
		}
		ent := em.Instance()
		if err := datastore.FromMsgpack(b, ent); err != nil {
			continue
		}
		_ = ent.ComputeProperties()
		ce, ok := ent.(datastore.CollectionEntity)
		if !ok {
			continue
		}
		ce.SetCollectionScore(e.s)
		ents = append(ents, ce)
	}
	hook := m.IterHook
	m.mu.Unlock()
	for i, ce := range ents {
		if hook != nil {
			hook(ctx, collectionName, i)
		}
		select {
		case <-ctx.Done():
			return ctx.Err()
		default:
		}
		cont, err := handler(ctx, ce)
		if err != nil {
			return err
		}
		if !cont {
			return nil
		}
	}
	return nil
}

// Keys returns the sorted keys stored for an entity name.
func (m *MemStore) Keys(name string) []string {
	m.mu.Lock()
	defer m.mu.Unlock()
	out := make([]string, 0, len(m.data[name]))
	for k := range m.data[name] {
		out = append(out, k)
	}
	sort.Strings(out)
	return out
}
