// Package crypto hosts the checks whose surface is a signed message in
// transit: the simulator contributes the byzantine tamper fault on a simulated
// link; the receiver runs the shipped verification code.
package crypto

import (
	"encoding/hex"
	"fmt"

	"0chain.net/chaincore/client"
	"0chain.net/core/encryption"

	"verif/sim"
	"verif/worlds/wkit"
)

var schemes = []string{"bls0chain", "ed25519"}

func init() {
	sim.Register(&sim.Check{
		ID: "C47", Title: "Client signatures verify exactly for the signing key", World: "crypto",
		Gen: genC47, Exec: execC47,
		Quick:    sim.Budget{Runs: 400, WallS: 60},
		Thorough: sim.Budget{Runs: 40000, WallS: 900},
		LevelText: "seeded search over signed messages on a simulated byzantine link (tamper signature / key / hash, cross-scheme delivery, replay under another key) " +
			"plus histories on one long-lived receiver scheme object per scheme (re-keyed with SetPublicKey to an unrelated key / a third key / back, the pair that just verified checked again after every re-key, tampered variants and another signer's signature right after a success); " +
			"a clean batch is evidence, not proof",
		LevelNote: "input-class property hosted in the simulation: schedules contribute nothing; the trusted base is herumi BLS / Go ed25519 as shipped and the oracle's notion of 'effective tamper' (decoded bytes differ)",
		Technique: "deterministic simulation: seeded tamper-fault injection on signed messages, receiver = real encryption + client code",
		DesignRef: "6/C47", Regime: "single-threaded event loop",
		Components: sim.Components{
			Real: []string{"core/encryption (BLS0Chain, ED25519 schemes)", "chaincore/client (SetPublicKey, Validate, Verify)"},
			Sim:  []string{"senders with seeded keys", "tampering link"},
			Stub: []string{},
		},
		Assumptions: []string{"a tamper is effective when the decoded bytes of signature, public key or hash differ from what was signed"},
	})
}

// plan: a pool of K clients; each step is one message: sign by client A over
// message #m, delivered with a tamper kind.
func genC47(seed uint64, tier string) *sim.Plan {
	r := sim.NewRNG(seed).Child("plan")
	p := &sim.Plan{Cfg: map[string]int64{"clients": int64(r.Range(2, 5))}}
	n := r.Range(5, 30)
	for i := 0; i < n; i++ {
		kind := r.Pick([]int{4, 3, 3, 3, 2, 2, 2, 2, 2})
		st := sim.Step{Op: []string{"deliver", "flipsig", "otherkey", "otherhash", "fliphash", "regid", "xscheme", "hashtail", "rekey"}[kind],
			A: r.Intn(5), I: []int64{int64(r.Intn(2)), int64(r.Intn(1000)), int64(r.Intn(4096)), int64(r.Intn(5))}}
		p.Steps = append(p.Steps, st)
	}
	// histories on ONE long-lived receiver-side scheme object per scheme (drawn after the steps above, which keep
	// their arguments): a pair that just verified is checked again after the object was re-keyed, and tampered
	// variants of it right after a success.  I[4..]: actions
	for i, k := 0, r.Range(1, 3); i < k; i++ {
		in := []int64{int64(r.Intn(2)), int64(r.Intn(1000)), int64(r.Intn(4096)), int64(r.Intn(5))}
		for a, na := 0, r.Range(2, 7); a < na; a++ {
			in = append(in, int64(r.Intn(len(c47Acts))))
		}
		st := sim.Step{Op: "history", A: r.Intn(5), I: in}
		at := r.Intn(len(p.Steps) + 1)
		p.Steps = append(p.Steps[:at], append([]sim.Step{st}, p.Steps[at:]...)...)
	}
	return p
}

// actions of a "history" step on the long-lived scheme object
var c47Acts = []string{"verify-same", "rekey-other", "rekey-back", "rekey-third", "verify-flipsig", "verify-otherhash", "verify-hashtail", "verify-other-signer"}

func execC47(env *sim.Env, p *sim.Plan) *sim.Result {
	wkit.Quiet()
	tr := sim.NewTrace()
	tr.Keep = env.KeepLog
	keys := sim.NewRNG(p.Seed).Child("keys")
	nc := int(p.CfgInt("clients", 3))
	type cl struct{ ss [2]encryption.SignatureScheme }
	cls := make([]cl, nc)
	for i := range cls {
		for s := range schemes {
			cls[i].ss[s] = wkit.NewKeys(schemes[s], keys.Child(fmt.Sprintf("c%d/%d", i, s)))
		}
	}
	viol := func(oracle, sig, detail string) {
		tr.Violate(&sim.Violation{Prop: "C47", Oracle: oracle, Sig: "C47/" + sig, Detail: detail})
	}
	// one receiver-side scheme object per scheme for the whole run: re-keyed with SetPublicKey, never replaced
	lived := [2]encryption.SignatureScheme{}
	for _, st := range p.Steps {
		a := st.A % nc
		sc := int(st.Int(0, 0)) % 2
		msg := encryption.Hash(fmt.Sprintf("msg-%d", st.Int(1, 0)))
		signer := cls[a].ss[sc]
		sig, err := signer.Sign(msg)
		if err != nil {
			viol("sign", "sign-error/"+schemes[sc], err.Error())
			continue
		}
		// receiver side: a fresh scheme object holding only the public key
		recvKey := signer.GetPublicKey()
		recvScheme := sc
		recvHash := msg
		recvSig := sig
		expect := true
		switch st.Op {
		case "deliver":
		case "flipsig":
			b, _ := hex.DecodeString(sig)
			bit := int(st.Int(2, 0)) % (len(b) * 8)
			b[bit/8] ^= 1 << (bit % 8)
			recvSig = hex.EncodeToString(b)
			expect = false
			tr.Fault("tamper_signature")
		case "otherkey":
			o := (a + 1 + int(st.Int(3, 0))%max(nc-1, 1)) % nc
			if o == a {
				tr.Outcome("skip")
				continue
			}
			recvKey = cls[o].ss[sc].GetPublicKey()
			expect = false
			tr.Fault("tamper_key")
		case "otherhash":
			recvHash = encryption.Hash(fmt.Sprintf("msg-%d", st.Int(1, 0)+1))
			expect = false
			tr.Fault("tamper_hash")
		case "fliphash":
			b, _ := hex.DecodeString(msg)
			bit := int(st.Int(2, 0)) % (len(b) * 8)
			b[bit/8] ^= 1 << (bit % 8)
			recvHash = hex.EncodeToString(b)
			expect = false
			tr.Fault("tamper_hash")
		case "hashtail":
			// the signed hash followed by a tail (an extra nibble, non-hex characters, a suffix):
			// a different hash string, which must not verify
			tails := []string{"0", "f", "zz", ":fee=0", "00", " ", "g0"}
			recvHash = msg + tails[int(st.Int(2, 0))%len(tails)]
			expect = false
			tr.Fault("tamper_hash_tail")
		case "rekey":
			// a long-lived client / node object is refreshed after its exported PublicKey field was
			// overwritten (obj.SetPublicKey(obj.PublicKey)): id and verification must follow the new key
			o := (a + 1 + int(st.Int(3, 0))%max(nc-1, 1)) % nc
			if o == a {
				tr.Outcome("skip")
				continue
			}
			c := &client.Client{}
			c.SetSignatureSchemeType(schemes[sc])
			if err := c.SetPublicKey(cls[o].ss[sc].GetPublicKey()); err != nil {
				viol("register", "register-error/"+schemes[sc], err.Error())
				continue
			}
			c.PublicKey = recvKey // field overwritten with the signer's key …
			if err := c.SetPublicKey(c.PublicKey); err != nil { // … and refreshed
				viol("register", "register-error/"+schemes[sc], err.Error())
				continue
			}
			tr.Fault("client_object_rekeyed")
			pkb, _ := hex.DecodeString(recvKey)
			if want := encryption.Hash(pkb); c.ID != want {
				viol("client-id", "client-id-not-hash-after-rekey/"+schemes[sc], fmt.Sprintf("id %s want %s", c.ID, want))
			}
			ok, err := c.Verify(sig, msg)
			if !ok || err != nil {
				viol("verify", "honest-rejected-after-rekey/"+schemes[sc], fmt.Sprintf("signature of the new key rejected (ok=%v err=%v)", ok, err))
			}
			osig, _ := cls[o].ss[sc].Sign(msg)
			if ok, _ := c.Verify(osig, msg); ok {
				viol("verify", "old-key-accepted-after-rekey/"+schemes[sc], "signature of the replaced key still verifies")
			}
			tr.Event("rekey scheme=%s ok=%v", schemes[sc], ok)
			tr.Outcome("rekey")
			continue
		case "history":
			if lived[sc] == nil {
				lived[sc] = encryption.GetSignatureScheme(schemes[sc])
			}
			ls := lived[sc]
			cur := -1 // whose public key the object holds now
			setKey := func(k int) bool {
				if err := ls.SetPublicKey(cls[k].ss[sc].GetPublicKey()); err != nil {
					viol("setkey", "setkey-error/"+schemes[sc], err.Error())
					return false
				}
				cur = k
				return true
			}
			// check: the verdict of the long-lived object must be what the statement says for the key it holds
			// now, whatever it verified before
			check := func(what, s, h string, expect bool) {
				ok, verr := ls.Verify(s, h)
				ok = ok && verr == nil
				tr.Event("history %s scheme=%s signer=%d key=%d ok=%v", what, schemes[sc], a, cur, ok)
				tr.Outcome(fmt.Sprintf("history/%s/%v", what, ok))
				switch {
				case expect && !ok:
					viol("verify-history", "history/honest-rejected/"+schemes[sc], fmt.Sprintf("%s: a valid signature is rejected by a long-lived scheme object holding the signer's key (err=%v)", what, verr))
				case !expect && ok:
					viol("verify-history", "history/"+what+"-accepted/"+schemes[sc], fmt.Sprintf("%s: verified by a long-lived scheme object although the signature is not one of the key it holds for this hash (signer %d, key of %d)", what, a, cur))
				}
			}
			other := (a + 1 + int(st.Int(3, 0))%max(nc-1, 1)) % nc
			third := (other + 1) % nc
			if !setKey(a) {
				continue
			}
			check("verify-first", sig, msg, true)
			for k := 4; k < len(st.I); k++ {
				act := c47Acts[int(st.I[k])%len(c47Acts)]
				switch act {
				case "verify-same":
					if cur != a {
						tr.Fault("same_pair_after_rekey")
					}
					check(map[bool]string{true: "same-pair", false: "same-pair-after-rekey"}[cur == a], sig, msg, cur == a)
				case "rekey-other", "rekey-back", "rekey-third":
					to := map[string]int{"rekey-other": other, "rekey-back": a, "rekey-third": third}[act]
					if !setKey(to) {
						break
					}
					tr.Fault("scheme_object_rekeyed")
					// the pair that verified under the signer's key, checked right after the key changed
					check(map[bool]string{true: "same-pair", false: "same-pair-after-rekey"}[cur == a], sig, msg, cur == a)
				case "verify-flipsig":
					b, _ := hex.DecodeString(sig)
					bit := int(st.Int(2, 0)) % (len(b) * 8)
					b[bit/8] ^= 1 << (bit % 8)
					tr.Fault("tamper_signature_after_success")
					check("flipsig", hex.EncodeToString(b), msg, false)
				case "verify-otherhash":
					tr.Fault("tamper_hash_after_success")
					check("otherhash", sig, encryption.Hash(fmt.Sprintf("msg-%d", st.Int(1, 0)+1)), false)
				case "verify-hashtail":
					tr.Fault("tamper_hash_after_success")
					check("hashtail", sig, msg+[]string{"0", "f", "zz", "00", " "}[int(st.Int(2, 0))%5], false)
				case "verify-other-signer":
					// a valid signature of another client over the same hash: valid exactly under that client's key
					osig, err := cls[other].ss[sc].Sign(msg)
					if err == nil && other != a {
						check(map[bool]string{true: "other-signer-own-key", false: "other-signer"}[cur == other], osig, msg, cur == other)
					}
				}
			}
			tr.Outcome("history")
			continue
		case "xscheme":
			// same owner, signature of the other scheme delivered with this scheme's key
			osig, err := cls[a].ss[1-sc].Sign(msg)
			if err != nil {
				continue
			}
			recvSig = osig
			expect = false
			tr.Fault("cross_scheme")
		case "regid":
			// registration: the client entity must derive id = hash(public key bytes)
			c := &client.Client{}
			c.SetSignatureSchemeType(schemes[sc])
			if err := c.SetPublicKey(recvKey); err != nil {
				viol("register", "register-error/"+schemes[sc], err.Error())
				continue
			}
			pkb, _ := hex.DecodeString(recvKey)
			want := encryption.Hash(pkb)
			if c.ID != want {
				viol("client-id", "client-id-not-hash/"+schemes[sc], fmt.Sprintf("id %s want %s", c.ID, want))
			}
			// a forged id must be rejected by Validate
			c.ID = encryption.Hash(fmt.Sprintf("forged-%d", st.Int(1, 0)))
			if err := c.Validate(nil); err == nil {
				viol("client-id", "forged-id-validates/"+schemes[sc], "Validate accepted id != hash(pk)")
			}
			tr.Fault("forged_client_id")
			ok, err := c.Verify(sig, msg)
			tr.Event("regid scheme=%s ok=%v", schemes[sc], ok)
			if !ok || err != nil {
				viol("verify", "honest-rejected/"+schemes[sc], fmt.Sprintf("client.Verify ok=%v err=%v", ok, err))
			}
			tr.Outcome("regid")
			continue
		}
		recv := encryption.GetSignatureScheme(schemes[recvScheme])
		if err := recv.SetPublicKey(recvKey); err != nil {
			viol("setkey", "setkey-error/"+schemes[recvScheme], err.Error())
			continue
		}
		ok, verr := recv.Verify(recvSig, recvHash)
		tr.Event("%s scheme=%s a=%d ok=%v err=%v", st.Op, schemes[sc], a, ok, verr != nil)
		tr.Outcome(fmt.Sprintf("%s/%v", st.Op, ok))
		if ok != expect {
			if expect {
				viol("verify", "honest-rejected/"+schemes[sc], fmt.Sprintf("valid signature rejected (err=%v)", verr))
			} else {
				viol("verify", st.Op+"-accepted/"+schemes[sc], "tampered message verified")
			}
		}
	}
	return tr.Result(p.Seed)
}
