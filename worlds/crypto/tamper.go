package crypto

import (
	"encoding/hex"
	"fmt"
	"reflect"
	"strconv"
	"strings"
)

// wireField is one leaf of an entity as it travels on the wire: an exported
// field that is not excluded from JSON. Path is the Go field path.
type wireField struct {
	Path string
	// Class: "int", "uint", "string", "bytes", "bool", "float" or "complex"
	// (slices, maps, nested entities that the check mutates with crafted
	// operations or, failing that, by zeroing).
	Class string
}

// wireLeaves enumerates the wire fields of struct type t by reflection, so a
// field added to the entity later is covered without touching the check.
// Anonymous struct fields without their own JSON name are flattened (Go's JSON
// rule); anonymous fields that carry a JSON name (Block.MagicBlock) and named
// struct fields are reported as one complex field each unless deep says to
// descend into them.
func wireLeaves(t reflect.Type, prefix string, deep func(path string) bool) []wireField {
	for t.Kind() == reflect.Pointer {
		t = t.Elem()
	}
	var out []wireField
	for i := 0; i < t.NumField(); i++ {
		f := t.Field(i)
		if !f.IsExported() {
			continue
		}
		tag := f.Tag.Get("json")
		name := strings.Split(tag, ",")[0]
		if name == "-" {
			continue
		}
		ft := f.Type
		for ft.Kind() == reflect.Pointer {
			ft = ft.Elem()
		}
		path := prefix + f.Name
		if f.Anonymous && name == "" && ft.Kind() == reflect.Struct {
			out = append(out, wireLeaves(ft, prefix, deep)...)
			continue
		}
		switch ft.Kind() {
		case reflect.Int, reflect.Int8, reflect.Int16, reflect.Int32, reflect.Int64:
			out = append(out, wireField{path, "int"})
		case reflect.Uint, reflect.Uint8, reflect.Uint16, reflect.Uint32, reflect.Uint64:
			out = append(out, wireField{path, "uint"})
		case reflect.String:
			out = append(out, wireField{path, "string"})
		case reflect.Bool:
			out = append(out, wireField{path, "bool"})
		case reflect.Float32, reflect.Float64:
			out = append(out, wireField{path, "float"})
		case reflect.Slice:
			if ft.Elem().Kind() == reflect.Uint8 {
				out = append(out, wireField{path, "bytes"})
			} else {
				out = append(out, wireField{path, "complex"})
			}
		case reflect.Struct:
			if deep != nil && deep(path) {
				out = append(out, wireLeaves(ft, path+".", deep)...)
			} else {
				out = append(out, wireField{path, "complex"})
			}
		default:
			out = append(out, wireField{path, "complex"})
		}
	}
	return out
}

// fieldByPath resolves a dotted Go field path (promoted fields included)
// on a struct value; ok=false when the path does not exist (e.g. a replay
// file recorded against another version of the entity) or crosses a nil pointer.
func fieldByPath(v reflect.Value, path string) (reflect.Value, bool) {
	for _, part := range strings.Split(path, ".") {
		for v.Kind() == reflect.Pointer {
			if v.IsNil() {
				return reflect.Value{}, false
			}
			v = v.Elem()
		}
		if v.Kind() == reflect.Slice {
			i, err := strconv.Atoi(part)
			if err != nil || i < 0 || i >= v.Len() {
				return reflect.Value{}, false
			}
			v = v.Index(i)
			continue
		}
		if v.Kind() != reflect.Struct {
			return reflect.Value{}, false
		}
		v = v.FieldByName(part)
		if !v.IsValid() {
			return reflect.Value{}, false
		}
	}
	return v, true
}

// Leaf mutation kinds.
const (
	mutInc   = 0 // numbers +1; strings: flip one bit (hex strings) / alter one character
	mutDec   = 1 // numbers -1; strings: replace by the alternative value supplied by the check
	mutOther = 2 // numbers: another value; strings: append a character
	mutZero  = 3 // zero value
	mutKinds = 4
)

// mutateLeaf alters a leaf in place. arg selects positions / values, alt is an
// alternative well-formed value for strings ("" = none). It reports whether the
// value actually changed.
func mutateLeaf(f reflect.Value, kind int, arg int64, alt string) bool {
	for f.Kind() == reflect.Pointer {
		if f.IsNil() {
			return false
		}
		f = f.Elem()
	}
	if !f.CanSet() {
		return false
	}
	before := fmt.Sprintf("%#v", f.Interface())
	switch f.Kind() {
	case reflect.Int, reflect.Int8, reflect.Int16, reflect.Int32, reflect.Int64:
		x := f.Int()
		switch kind {
		case mutInc:
			x++
		case mutDec:
			x--
		case mutOther:
			x += 2 + arg%1000
		default:
			x = 0
		}
		f.SetInt(x)
	case reflect.Uint, reflect.Uint8, reflect.Uint16, reflect.Uint32, reflect.Uint64:
		x := f.Uint()
		switch kind {
		case mutInc:
			x++
		case mutDec:
			x--
		case mutOther:
			x += 2 + uint64(arg%1000)
		default:
			x = 0
		}
		f.SetUint(x)
	case reflect.Bool:
		f.SetBool(!f.Bool())
	case reflect.Float32, reflect.Float64:
		f.SetFloat(f.Float() + 1)
	case reflect.String:
		s := f.String()
		switch kind {
		case mutInc:
			if t, ok := flipHexBit(s, int(arg)); ok && len(s) >= 16 {
				s = t
			} else {
				s = alterChar(s, int(arg))
			}
		case mutDec:
			if alt != "" {
				s = alt
			} else {
				s = alterChar(s, int(arg))
			}
		case mutOther:
			s += "0"
		default:
			s = ""
		}
		f.SetString(s)
	case reflect.Slice:
		if f.Type().Elem().Kind() != reflect.Uint8 {
			f.Set(reflect.Zero(f.Type()))
			break
		}
		b := append([]byte(nil), f.Bytes()...)
		switch {
		case kind == mutZero || len(b) == 0:
			if len(b) == 0 {
				b = []byte{byte(arg) | 1}
			} else {
				b = nil
			}
		case kind == mutOther:
			b = b[:len(b)-1]
		default:
			bit := int(arg) % (len(b) * 8)
			b[bit/8] ^= 1 << (bit % 8)
		}
		f.SetBytes(b)
	default:
		f.Set(reflect.Zero(f.Type()))
	}
	return before != fmt.Sprintf("%#v", f.Interface())
}

// alterChar changes one character of s to another printable one, preferring
// digits/letters so that JSON payloads stay well-formed JSON: it looks for the
// first digit or letter at or after position pos (cyclically).
func alterChar(s string, pos int) string {
	if s == "" {
		return "x"
	}
	b := []byte(s)
	n := len(b)
	if pos < 0 {
		pos = -pos
	}
	for k := 0; k < n; k++ {
		i := (pos + k) % n
		c := b[i]
		switch {
		case c >= '0' && c <= '9':
			b[i] = '0' + (c-'0'+1)%10
			return string(b)
		case c >= 'a' && c <= 'z':
			b[i] = 'a' + (c-'a'+1)%26
			return string(b)
		case c >= 'A' && c <= 'Z':
			b[i] = 'A' + (c-'A'+1)%26
			return string(b)
		}
	}
	return s + "x"
}

func isHex(s string) bool {
	_, err := hex.DecodeString(s)
	return err == nil && s != ""
}
