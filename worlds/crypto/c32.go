package crypto

import (
	"context"
	"encoding/json"
	"fmt"

	"0chain.net/chaincore/block"
	"0chain.net/chaincore/node"
	"0chain.net/chaincore/transaction"
	"0chain.net/core/common"
	"0chain.net/core/encryption"
	"github.com/herumi/bls-go-binary/bls"

	"verif/sim"
)

func init() {
	sim.Register(&sim.Check{
		ID: "C32", Title: "Batched signature checks agree with individual checks", World: "crypto",
		Gen: genC32, Exec: execC32,
		Quick:    sim.Budget{Runs: 640, WallS: 60},
		Thorough: sim.Budget{Runs: 25000, WallS: 840},
		LevelText: "seeded search over signature batches: really signed transactions of one block and verification-ticket sets of one block hash, seeded sizes (1..20) and validation batch sizes, " +
			"a seeded subset corrupted in transit (bit flip, signature over another message, signature of another key, swapped signatures, and coordinated corruptions sig_i+d, sig_j-d / three-way sums to zero as BLS group elements, " +
			"inside one batch and across batches, alone or next to an independent corruption); fed to the shipped BLS0ChainAggregateSignatureScheme (Aggregate/Verify), miner.ValidateTransactions and chain.VerifyTickets; " +
			"plus histories on long-lived scheme objects (one per client key for the run, the node's client cache, the miner nodes of the pool): the same set, other batch sizes, overlapping sets with the same first signature (a competing block / a smaller ticket set) and the members one by one are checked 2..6 times in seeded order through the same objects - the verdict must be the same every time; " +
			"oracle: accepted exactly when every individual Verify (shipped scheme on a fresh object, computed by the oracle) is true. A clean batch is evidence, not proof",
		LevelNote: "input-class property hosted in the simulation: schedules contribute nothing; the simulator contributes signed messages and the byzantine link. " +
			"ed25519 runs exercise only the one-by-one path of ValidateTransactions (no aggregate scheme exists for it; chain.VerifyTickets panics by design for it and is not called)",
		Technique: "deterministic simulation: seeded byzantine corruption of signature sets incl. algebraically cancelling ones; receiver = real aggregate scheme, miner.ValidateTransactions, chain.VerifyTickets",
		DesignRef: "6/C32, 8", Regime: "single-threaded event loop (inner worker goroutines of ValidateTransactions / VerifyTickets run to completion inside one step)",
		Components: sim.Components{
			Real: []string{"core/encryption (BLS0ChainAggregateSignatureScheme, BLS0ChainScheme, ED25519Scheme)", "miner.Chain.ValidateTransactions", "chaincore/chain.Chain.VerifyTickets", "chaincore/transaction", "chaincore/block", "chaincore/node (Pool)", "herumi bls (group arithmetic used by the byzantine side)"},
			Sim:  []string{"clients / miners with seeded keys", "corrupting link", "re-verification schedule on long-lived scheme objects", "individual-verification oracle"},
			Stub: []string{"datastore.Store (no-op)"},
		},
		Assumptions: []string{
			"individual validity is decided by the shipped SignatureScheme.Verify under the public key the receiver associates with the signer",
			"cancelling corruptions accepted by the plain aggregate check are listed known findings (one per surface); any other disagreement is fatal",
		},
	})
}

var c32Kinds = []string{"none", "flip", "other-message", "other-key", "swap", "cancel-pair", "cancel-triple", "cancel-pair+flip", "cancel-cross-batch"}

func genC32(seed uint64, tier string) *sim.Plan {
	r := sim.NewRNG(seed).Child("plan")
	sw := sim.NewRNG(seed).Child("swarm")
	tam := sim.NewRNG(seed).Child("tamper")
	scheme := 0
	if sw.Intn(6) == 0 {
		scheme = 1 // ed25519: one-by-one path only
	}
	p := &sim.Plan{Cfg: map[string]int64{
		"scheme":  int64(scheme),
		"clients": int64(sw.Range(2, 5)),
		"miners":  int64(sw.Range(2, 9)),
	}}
	n := r.Range(5, 10)
	for i := 0; i < n; i++ {
		op := []string{"txns", "txns", "tickets"}[r.Intn(3)]
		p.Steps = append(p.Steps, sim.Step{Op: op, A: r.Intn(8), I: []int64{
			int64(r.Range(1, 20)),                                                        // 0 number of transactions / tickets wanted
			int64([]int{1, 2, 3, 5, 8, 64, 0}[r.Intn(7)]),                                // 1 validation batch size (0 = whole set)
			int64(tam.Pick([]int{2, 2, 2, 2, 3, 5, 3, 2, 4})),                            // 2 corruption kind
			int64(tam.Intn(1 << 16)), int64(tam.Intn(1 << 16)), int64(tam.Intn(1 << 16)), // 3,4,5 element selectors
			int64(tam.Intn(1 << 16)), // 6 delta / bit selector
			int64(r.Intn(1000)),      // 7 payload selector
		}})
	}
	// histories on long-lived scheme objects (the node hands out one scheme object per client / per miner node):
	// the same set, other batch sizes, overlapping sets (same first signature) and the members one by one are
	// checked again and again through the same objects.  Drawn after the steps above so those keep their arguments.
	for i, k := 0, r.Range(1, 3); i < k; i++ {
		n := r.Range(1, 20)
		if r.Intn(5) < 3 {
			n = r.Range(2, 6)
		}
		in := []int64{
			int64(n), int64([]int{1, 2, 3, 5, 8, 64, 0}[r.Intn(7)]),
			int64(tam.Pick([]int{8, 1, 1, 1, 1, 1, 1, 1, 1})),
			int64(tam.Intn(1 << 16)), int64(tam.Intn(1 << 16)), int64(tam.Intn(1 << 16)), int64(tam.Intn(1 << 16)),
			int64(r.Intn(1000)),
			int64(r.Intn(2)), // 8 flavour: transactions / tickets
		}
		for a, na := 0, r.Range(2, 6); a < na; a++ {
			in = append(in, int64(r.Intn(7)*1000+r.Intn(1000))) // 9.. action*1000 + selector
		}
		st := sim.Step{Op: "history", A: r.Intn(8), I: in}
		at := r.Intn(len(p.Steps) + 1)
		p.Steps = append(p.Steps[:at], append([]sim.Step{st}, p.Steps[at:]...)...)
	}
	return p
}

type c32Item struct {
	pk   string // public key the receiver associates with the signer
	hash string
	sig  string
}

// corrupt applies the corruption kind to the signature vector; returns the class
// of what was applied ("", "cancelling", or the plain kind) and whether it fired.
func c32Corrupt(items []c32Item, kind string, st sim.Step, batch int, signOther func(i int, hash string) string, otherKeySig func(i int) string, delta func(k int64) *bls.G1, isBLS bool) (string, bool) {
	n := len(items)
	i := int(st.Int(3, 0)) % n
	pickOther := func(base int, sel int64) int {
		if n < 2 {
			return base
		}
		return (base + 1 + int(sel)%(n-1)) % n
	}
	j := pickOther(i, st.Int(4, 0))
	switch kind {
	case "none":
		return "", false
	case "flip":
		s, ok := flipHexBit(items[i].sig, int(st.Int(6, 0)))
		if !ok {
			return "", false
		}
		items[i].sig = s
		return kind, true
	case "other-message":
		items[i].sig = signOther(i, encryption.Hash(fmt.Sprintf("another message %d", st.Int(6, 0))))
		return kind, true
	case "other-key":
		s := otherKeySig(i)
		if s == "" || s == items[i].sig {
			return "", false
		}
		items[i].sig = s
		return kind, true
	case "swap":
		if n < 2 || items[i].sig == items[j].sig {
			return "", false
		}
		items[i].sig, items[j].sig = items[j].sig, items[i].sig
		return "cancelling", true
	}
	if !isBLS || n < 2 {
		return "", false
	}
	d := delta(st.Int(6, 0))
	shift := func(x int, d *bls.G1, sub bool) bool {
		s, err := sigShift(items[x].sig, d, sub)
		if err != nil {
			return false
		}
		items[x].sig = s
		return true
	}
	switch kind {
	case "cancel-pair", "cancel-pair+flip":
		if !shift(i, d, false) || !shift(j, d, true) {
			return "", false
		}
		if kind == "cancel-pair+flip" {
			if n < 3 {
				return "cancelling", true
			}
			k := i
			for k == i || k == j {
				k = (k + 1) % n
			}
			items[k].sig = signOther(k, encryption.Hash("independent corruption"))
			return "cancelling+independent", true
		}
		return "cancelling", true
	case "cancel-cross-batch":
		// choose j in another validation batch than i when there is one
		if batch > 0 && batch < n {
			for t := 0; t < n; t++ {
				c := (j + t) % n
				if c/batch != i/batch {
					j = c
					break
				}
			}
		}
		if !shift(i, d, false) || !shift(j, d, true) {
			return "", false
		}
		return "cancelling", true
	case "cancel-triple":
		if n < 3 {
			return "", false
		}
		k := i
		for k == i || k == j {
			k = (k + 1) % n
		}
		d2 := delta(st.Int(6, 0) + 1)
		var sum bls.G1
		bls.G1Add(&sum, d, d2)
		if !shift(i, d, false) || !shift(j, d2, false) || !shift(k, &sum, true) {
			return "", false
		}
		return "cancelling", true
	}
	return "", false
}

func execC32(env *sim.Env, p *sim.Plan) *sim.Result {
	tr := sim.NewTrace()
	tr.Keep = keepLog(env)
	scheme := schemes[int(p.CfgInt("scheme", 0))%2]
	isBLS := scheme == "bls0chain"
	keys := sim.NewRNG(p.Seed).Child("keys")
	nc := max(int(p.CfgInt("clients", 3)), 2)
	nm := max(int(p.CfgInt("miners", 4)), 2)
	cls := make([]*simClient, nc)
	for i := range cls {
		cls[i] = newSimClient(scheme, keys.Child(fmt.Sprintf("c%d", i)))
	}
	miners := make([]*simMiner, nm)
	pool := node.NewPool(node.NodeTypeMiner)
	world()
	for i := range miners {
		miners[i] = newSimMiner(scheme, keys.Child(fmt.Sprintf("m%d", i)), i)
		if err := pool.AddNode(miners[i].node); err != nil {
			panic(err)
		}
	}
	now := common.Timestamp(1_700_000_000 + int64(p.Seed%1000)*86400)
	ctx := context.Background()
	viol := func(oracle, sig, detail string) {
		tr.Violate(&sim.Violation{Prop: "C32", Oracle: oracle, Sig: "C32/" + sig, Detail: detail})
	}
	delta := func(k int64) *bls.G1 {
		s, err := cls[0].ss.Sign(encryption.Hash(fmt.Sprintf("delta %d", k)))
		if err != nil {
			panic(err)
		}
		g, err := sigToG1(s)
		if err != nil {
			panic(err)
		}
		return g
	}
	individually := func(items []c32Item) (bool, int) {
		bad := 0
		for _, it := range items {
			ss := encryption.GetSignatureScheme(scheme)
			if err := ss.SetPublicKey(it.pk); err != nil {
				bad++
				continue
			}
			if ok, err := ss.Verify(it.sig, it.hash); !ok || err != nil {
				bad++
			}
		}
		return bad == 0, bad
	}
	// repeat: "" for a first check with fresh objects; "/repeat" when the check runs on long-lived scheme objects
	// that have verified (parts of) the same set before.  The verdict must be the same every time.
	repeat := ""
	judge := func(surface, class, kind string, n, batch, bad int, accepted bool, rerr error) {
		tr.Event("%s%s kind=%s n=%d batch=%d scheme=%s invalid=%d -> accepted=%v (%s)", surface, repeat, kind, n, batch, scheme, bad, accepted, errCode(rerr))
		tr.Outcome(fmt.Sprintf("%s%s/%s/%v", surface, repeat, class, accepted))
		allValid := bad == 0
		hist := ""
		if repeat != "" {
			hist = " (checked through long-lived scheme objects that verified members of this set before)"
		}
		switch {
		case accepted && !allValid && class == "cancelling":
			viol("batch-vs-individual", surface+"/cancelling/accepted",
				fmt.Sprintf("%s accepted a set of %d signatures (batch size %d) of which %d fail individual Verify: coordinated corruption %s leaves the sum of the signatures unchanged", surface, n, batch, bad, kind))
		case accepted && !allValid:
			viol("batch-vs-individual", surface+"/"+kind+"/accepted"+repeat,
				fmt.Sprintf("%s accepted a set of %d signatures (batch size %d) of which %d fail individual Verify (corruption %s)%s", surface, n, batch, bad, kind, hist))
		case !accepted && allValid:
			viol("batch-vs-individual", surface+"/valid-rejected"+repeat,
				fmt.Sprintf("%s rejected a set of %d signatures (batch size %d) that all verify individually%s: %v", surface, n, batch, hist, rerr))
		}
	}
	// long-lived receiver-side scheme objects, one per public key for the whole run (what the client cache is to the node)
	lived := map[string]encryption.SignatureScheme{}
	livedFor := func(pk string) (encryption.SignatureScheme, error) {
		if ss, ok := lived[pk]; ok {
			return ss, nil
		}
		ss := encryption.GetSignatureScheme(scheme)
		if err := ss.SetPublicKey(pk); err != nil {
			return nil, err
		}
		lived[pk] = ss
		return ss, nil
	}
	// one member at a time through `verify` (a long-lived object); must agree with a fresh scheme object every time
	oneByOne := func(surface string, items []c32Item, verify func(i int) (bool, error)) {
		for i := range items {
			_, bad := individually(items[i : i+1])
			ok, err := verify(i)
			ok = ok && err == nil
			tr.Outcome(fmt.Sprintf("%s/%v/%v", surface, bad == 0, ok))
			switch {
			case bad == 0 && !ok:
				tr.Event("%s member %d valid but rejected (%s)", surface, i, errCode(err))
				viol("individual-repeatable", surface+"/valid-rejected"+repeat, fmt.Sprintf("%s: a signature that verifies with a fresh scheme object is rejected by the long-lived scheme object of the same key after earlier batch checks (member %d of %d): %v", surface, i, len(items), err))
			case bad != 0 && ok:
				tr.Event("%s member %d invalid but accepted", surface, i)
				viol("individual-repeatable", surface+"/invalid-accepted"+repeat, fmt.Sprintf("%s: a signature that fails with a fresh scheme object is accepted by the long-lived scheme object of the same key (member %d of %d)", surface, i, len(items)))
			}
		}
		tr.Event("%s%s n=%d done", surface, repeat, len(items))
	}
	for _, st := range p.Steps {
		n := int(st.Int(0, 1))
		if n < 1 {
			n = 1
		}
		batch := int(st.Int(1, 0))
		kind := c32Kinds[int(st.Int(2, 0))%len(c32Kinds)]
		switch st.Op {
		case "txns":
			if batch <= 0 {
				batch = n
			}
			rc := newReceiverFor(scheme, batch)
			bt := now + common.Timestamp(st.Int(7, 0)%600)
			txns := make([]*transaction.Transaction, n)
			items := make([]c32Item, n)
			owner := make([]*simClient, n)
			for i := range txns {
				cl := cls[(i+st.A)%nc]
				owner[i] = cl
				txns[i] = buildTxn(cl, cls[(i+st.A+1)%nc].id, (i+int(st.Int(7, 0)))%c30Shapes, st.Int(7, 0)*32+int64(i), bt-common.Timestamp(i%4), true)
				items[i] = c32Item{pk: cl.pk, hash: txns[i].Hash, sig: txns[i].Signature}
			}
			class, fired := c32Corrupt(items, kind, st, batch,
				func(i int, h string) string { s, _ := owner[i].ss.Sign(h); return s },
				func(i int) string {
					for _, c := range cls {
						if c != owner[i] {
							s, _ := c.ss.Sign(items[i].hash)
							return s
						}
					}
					return ""
				}, delta, isBLS)
			if fired {
				tr.Fault("corrupt_" + kind)
			} else {
				kind, class = "none", ""
			}
			for i := range txns {
				txns[i].Signature = items[i].sig
			}
			_, bad := individually(items)
			// surface 1: the aggregate scheme driven directly, the way ValidateTransactions drives it
			if isBLS {
				acc, err := c32Aggregate(items, batch)
				judge("aggregate", class, kind, n, batch, bad, acc, err)
			}
			// surface 2: the shipped miner.ValidateTransactions on the received block
			wire, err := json.Marshal(struct {
				Txns []*transaction.Transaction `json:"transactions"`
			}{txns})
			if err != nil {
				panic(err)
			}
			b := block.Provider().(*block.Block)
			if err := json.Unmarshal(wire, b); err != nil {
				panic(err)
			}
			b.CreationDate, b.Round = bt, 1
			var verr error
			if verr = b.ComputeProperties(); verr == nil {
				verr = rc.mc.ValidateTransactions(ctx, b)
			}
			judge("ValidateTransactions", class, kind, n, batch, bad, verr == nil, verr)
		case "tickets":
			if !isBLS {
				tr.Outcome("skip/tickets-need-bls")
				continue
			}
			if n > nm {
				n = nm
			}
			rc := newReceiverFor(scheme, 64)
			mb := block.NewMagicBlock()
			mb.Miners = pool
			mb.Sharders = node.NewPool(node.NodeTypeSharder)
			rc.c.SetMagicBlock(mb)
			round := 10 + st.Int(7, 0)%50
			bh := encryption.Hash(fmt.Sprintf("block %d of run %d", st.Int(7, 0), p.Seed))
			items := make([]c32Item, n)
			for i := range items {
				m := miners[(i+st.A)%nm]
				s, _ := m.ss.Sign(bh)
				items[i] = c32Item{pk: m.ss.GetPublicKey(), hash: bh, sig: s}
			}
			class, fired := c32Corrupt(items, kind, st, n,
				func(i int, h string) string { s, _ := miners[(i+st.A)%nm].ss.Sign(h); return s },
				func(i int) string { s, _ := miners[(i+st.A+1)%nm].ss.Sign(bh); return s },
				delta, isBLS)
			if fired {
				tr.Fault("corrupt_ticket_" + kind)
			} else {
				kind, class = "none", ""
			}
			_, bad := individually(items)
			acc, err := c32Aggregate(items, n)
			judge("aggregate", class, kind, n, n, bad, acc, err)
			bvts := make([]*block.VerificationTicket, n)
			for i := range items {
				bvts[i] = &block.VerificationTicket{VerifierID: miners[(i+st.A)%nm].node.GetKey(), Signature: items[i].sig}
			}
			verr := rc.c.VerifyTickets(ctx, bh, bvts, round)
			judge("VerifyTickets", class, kind, n, n, bad, verr == nil, verr)
		case "history":
			tickets := st.Int(8, 0) == 1 && isBLS
			if tickets && n > nm {
				n = nm
			}
			if batch <= 0 || tickets {
				batch = n
			}
			rc := newReceiverFor(scheme, batch)
			items := make([]c32Item, n)
			var txns []*transaction.Transaction
			var signer func(i int) encryption.SignatureScheme
			var other func(i int) encryption.SignatureScheme
			bt := now + common.Timestamp(st.Int(7, 0)%600)
			bh := encryption.Hash(fmt.Sprintf("history block %d of run %d", st.Int(7, 0), p.Seed))
			round := 10 + st.Int(7, 0)%50
			if tickets {
				mb := block.NewMagicBlock()
				mb.Miners = pool
				mb.Sharders = node.NewPool(node.NodeTypeSharder)
				rc.c.SetMagicBlock(mb)
				signer = func(i int) encryption.SignatureScheme { return miners[(i+st.A)%nm].ss }
				other = func(i int) encryption.SignatureScheme { return miners[(i+st.A+1)%nm].ss }
				for i := range items {
					s, _ := signer(i).Sign(bh)
					items[i] = c32Item{pk: signer(i).GetPublicKey(), hash: bh, sig: s}
				}
			} else {
				txns = make([]*transaction.Transaction, n)
				signer = func(i int) encryption.SignatureScheme { return cls[(i+st.A)%nc].ss }
				other = func(i int) encryption.SignatureScheme { return cls[(i+st.A+1)%nc].ss }
				for i := range txns {
					cl := cls[(i+st.A)%nc]
					txns[i] = buildTxn(cl, cls[(i+st.A+1)%nc].id, (i+int(st.Int(7, 0)))%c30Shapes, st.Int(7, 0)*32+int64(i)+1<<20, bt-common.Timestamp(i%4), true)
					items[i] = c32Item{pk: cl.pk, hash: txns[i].Hash, sig: txns[i].Signature}
				}
			}
			honest := append([]c32Item(nil), items...)
			class, fired := c32Corrupt(items, kind, st, batch,
				func(i int, h string) string { s, _ := signer(i).Sign(h); return s },
				func(i int) string { s, _ := other(i).Sign(items[i].hash); return s },
				delta, isBLS)
			if fired {
				tr.Fault("history_corrupt_" + kind)
			} else {
				kind, class = "none", ""
			}
			// class of the first m members on their own: a part of a coordinated corruption does not cancel, and the
			// cancelling part of a mixed corruption does (decided in the group: same sum as the honest signatures)
			classOf := func(m int) string {
				if m == n || class == "" || !isBLS {
					return class
				}
				var sumC, sumH bls.G1
				for i := 0; i < m; i++ {
					c, err1 := sigToG1(items[i].sig)
					h, err2 := sigToG1(honest[i].sig)
					if err1 != nil || err2 != nil {
						return kind
					}
					bls.G1Add(&sumC, &sumC, c)
					bls.G1Add(&sumH, &sumH, h)
				}
				if sumC.IsEqual(&sumH) {
					return "cancelling"
				}
				return kind
			}
			for i := range txns {
				txns[i].Signature = items[i].sig
			}
			aggLived := func(sub []c32Item, b int) (bool, error) {
				agg := encryption.GetAggregateSignatureScheme(encryption.SignatureSchemeBls0chain, len(sub), b)
				for i, it := range sub {
					ss, err := livedFor(it.pk)
					if err != nil {
						return false, err
					}
					if err := agg.Aggregate(ss, i, it.sig, it.hash); err != nil {
						return false, err
					}
				}
				return agg.Verify()
			}
			// the node's own path over the first m members: a (competing) block with these transactions /
			// a ticket set of the block; schemes come from the client cache / the miner nodes of the pool
			nodePath := func(m int) (string, error) {
				if tickets {
					bvts := make([]*block.VerificationTicket, m)
					for i := range bvts {
						bvts[i] = &block.VerificationTicket{VerifierID: miners[(i+st.A)%nm].node.GetKey(), Signature: items[i].sig}
					}
					return "VerifyTickets", rc.c.VerifyTickets(ctx, bh, bvts, round)
				}
				wire, err := json.Marshal(struct {
					Txns []*transaction.Transaction `json:"transactions"`
				}{txns[:m]})
				if err != nil {
					panic(err)
				}
				b := block.Provider().(*block.Block)
				if err := json.Unmarshal(wire, b); err != nil {
					panic(err)
				}
				b.CreationDate, b.Round = bt, 1
				if err := b.ComputeProperties(); err != nil {
					return "ValidateTransactions", err
				}
				return "ValidateTransactions", rc.mc.ValidateTransactions(ctx, b)
			}
			repeat = ""
			for a := 9; a < len(st.I); a++ {
				act, sel := int(st.I[a]/1000)%7, int(st.I[a]%1000)
				m := 1 + sel%n // overlapping set: the first m members (same first signature)
				_, bad := individually(items)
				_, badM := individually(items[:m])
				switch act {
				case 0, 1, 2:
					if !isBLS {
						tr.Outcome("skip/history-aggregate-needs-bls")
						continue
					}
					sub, b, sb := items, batch, bad
					if act == 1 {
						b = []int{1, 2, 3, n}[sel%4]
					}
					if act == 2 {
						sub, sb = items[:m], badM
					}
					if b > len(sub) {
						b = len(sub)
					}
					tr.Fault("history_aggregate")
					acc, err := aggLived(sub, b)
					judge("aggregate", classOf(len(sub)), kind, len(sub), b, sb, acc, err)
				case 3:
					tr.Fault("history_individual")
					oneByOne("individual", items, func(i int) (bool, error) {
						ss, err := livedFor(items[i].pk)
						if err != nil {
							return false, err
						}
						return ss.Verify(items[i].sig, items[i].hash)
					})
				case 4, 6:
					mm, sb := n, bad
					if act == 6 {
						mm, sb = m, badM
					}
					tr.Fault("history_node_path")
					surface, err := nodePath(mm)
					judge(surface, classOf(mm), kind, mm, batch, sb, err == nil, err)
				case 5:
					tr.Fault("history_node_individual")
					if tickets {
						oneByOne("node-individual", items, func(i int) (bool, error) {
							return miners[(i+st.A)%nm].node.Verify(items[i].sig, items[i].hash)
						})
					} else {
						oneByOne("node-individual", items, func(i int) (bool, error) {
							if err := txns[i].VerifySignature(ctx); err != nil {
								return false, nil
							}
							return true, nil
						})
					}
				}
				repeat = "/repeat"
			}
			repeat = ""
		default:
			tr.Outcome("skip/unknown-op")
		}
	}
	return finish(tr, p.Seed)
}

// c32Aggregate drives the shipped aggregate scheme with receiver-side schemes
// (public key only), index by index, like ValidateTransactions / VerifyTickets do.
func c32Aggregate(items []c32Item, batch int) (bool, error) {
	agg := encryption.GetAggregateSignatureScheme(encryption.SignatureSchemeBls0chain, len(items), batch)
	for i, it := range items {
		ss := encryption.NewBLS0ChainScheme()
		if err := ss.SetPublicKey(it.pk); err != nil {
			return false, err
		}
		if err := agg.Aggregate(ss, i, it.sig, it.hash); err != nil {
			return false, err
		}
	}
	return agg.Verify()
}
