package crypto

import (
	"fmt"
	"sort"

	"0chain.net/chaincore/block"
	"0chain.net/chaincore/threshold/bls"
	"0chain.net/core/encryption"

	"verif/sim"
	"verif/worlds/wkit"
)

func init() {
	sim.Register(&sim.Check{
		ID: "C34", Title: "Threshold key generation and signing are correct", World: "crypto",
		Gen: genC34, Exec: execC34,
		Quick:    sim.Budget{Runs: 1200, WallS: 60},
		Thorough: sim.Budget{Runs: 25000, WallS: 840},
		LevelText: "seeded search over (t,n) with 1<=t<=n<=8 (thorough: n<=12): n parties, each a real bls.DKG with a seeded polynomial, exchange their shares over a simulated network with loss, duplication, reordering and byzantine corruption " +
			"(scalar +-1, bit flips, misaddressed shares, wrong claimed sender, corrupted copies of the published Mpk); receivers run the shipped ValidateShare/AddSecretShare, then AggregateSecretKeyShares/AggregatePublicKeyShares (run again on the same DKG object after duplicate/retransmitted shares and at seeded points between signing rounds: a retried view-change wait step), Sign, VerifySignature, RecoverGroupSig/CalBlsGpSign over seeded t-subsets and orders, " +
			"ShareOrSigns.Validate; conflicting shares (share of an abandoned earlier polynomial, shifted scalar, undecodable string) redelivered with force=false for an already stored sender, during the exchange and after aggregation: must be refused and leave the stored shares, later aggregates and signature shares unchanged; " +
			"plus client keys: GenerateThresholdKeyShares + reconstruction (also with empty/malformed share strings offered to the same reconstruction object at any position: refused offers must not matter), GenerateSplitKeys + AggregateSignatures. A clean batch is evidence, not proof",
		LevelNote: "input-class property (crypto half of C34) hosted in the simulation: the simulator contributes the message schedule and the network/byzantine faults; the on-chain contribute/share/wait half belongs to C38's world and is not exercised here. " +
			"Dropped shares are retransmitted honestly before aggregation (qualified set = all n parties), so exclusion of parties from the qualified set is not explored",
		Technique: "deterministic simulation: multi-party DKG over a simulated lossy/byzantine network with seeded polynomials (bls.SetRandFunc); oracle from the algebraic statement, computed with the shipped primitives",
		DesignRef: "6/C34, Appendix B", Regime: "single-threaded event loop",
		Components: sim.Components{
			Real: []string{"chaincore/threshold/bls (MakeDKG, ComputeDKGKeyShare, GetDKGKeyShare, ValidateShare, AddSecretShare, AggregateSecretKeyShares, AggregatePublicKeyShares, Sign, VerifySignature, RecoverGroupSig, CalBlsGpSign, ComputeIDdkg)",
				"chaincore/block (ShareOrSigns.Validate, Mpks)", "core/encryption (GenerateThresholdKeyShares, BLS0ChainReconstruction, GenerateSplitKeys, AggregateSignatures)", "herumi bls"},
			Sim:  []string{"parties' protocol driver", "network (loss, duplicates, order, corruption, conflicting/malformed redeliveries)", "retransmission of dropped shares"},
			Stub: []string{},
		},
		Assumptions: []string{
			"the group public key is the sum of the parties' published constant coefficients; a party's public key share is the sum of all published polynomials evaluated at its id (computed by the oracle with herumi's PublicKey.Set/Add)",
			"fewer than t shares recovering a non-verifying signature is only recorded (probe), the statement does not speak about it",
		},
	})
}

func genC34(seed uint64, tier string) *sim.Plan {
	r := sim.NewRNG(seed).Child("plan")
	sw := sim.NewRNG(seed).Child("swarm")
	net := sim.NewRNG(seed).Child("net")
	tam := sim.NewRNG(seed).Child("tamper")
	maxN := 8
	if tier == "thorough" {
		maxN = 12
	}
	n := sw.Range(1, maxN)
	if sw.Intn(3) == 0 {
		n = sw.Range(1, 4)
	}
	t := sw.Range(1, n)
	switch sw.Intn(5) {
	case 0:
		t = n
	case 1:
		t = 1
	case 2:
		t = (2*n + 2) / 3
	}
	lossy := sw.Intn(3) != 0
	p := &sim.Plan{Cfg: map[string]int64{"t": int64(t), "n": int64(n), "verifiers": int64(sw.Range(2, 3))}}
	var shares []sim.Step
	for i := 0; i < n; i++ {
		for j := 0; j < n; j++ {
			if i == j {
				continue
			}
			fault := 0
			if lossy {
				fault = net.Pick([]int{12, 2, 2, 0, 0, 0, 0}) // deliver, drop, duplicate
				if tam.Intn(5) == 0 {
					fault = 3 + tam.Intn(5) // scalar+1, bit flip, misaddressed, wrong sender, scalar-1
				}
				if tam.Intn(14) == 0 {
					fault = 8 // a conflicting share for a sender whose share may already be stored (force=false)
				}
			}
			st := sim.Step{Op: "share", A: i, I: []int64{int64(j), int64(fault), int64(tam.Intn(1 << 16))}}
			shares = append(shares, st)
			if fault == 2 {
				shares = append(shares, st) // the duplicate travels separately and may arrive much later
			}
			if fault >= 3 {
				// the honest original also arrives, before or after the forgery
				shares = append(shares, sim.Step{Op: "share", A: i, I: []int64{int64(j), 0, 0}})
			}
		}
	}
	net.Shuffle(len(shares), func(a, b int) { shares[a], shares[b] = shares[b], shares[a] })
	for i := 0; i < n && lossy; i++ {
		if tam.Intn(4) == 0 {
			// receiver A holds a corrupted copy of party I[0]'s published Mpk for a while
			shares = append(shares, sim.Step{Op: "mpk", A: tam.Intn(n), I: []int64{int64(tam.Intn(n)), int64(tam.Intn(1 << 16))}})
		}
	}
	net.Shuffle(len(shares), func(a, b int) { shares[a], shares[b] = shares[b], shares[a] })
	p.Steps = append(p.Steps, shares...)
	p.Steps = append(p.Steps, sim.Step{Op: "finish"})
	var rest []sim.Step
	for i, k := 0, r.Range(0, 3); i < k; i++ {
		rest = append(rest, sim.Step{Op: "reaggregate", A: r.Intn(12), I: []int64{int64(r.Intn(3)), int64(r.Intn(2)), int64(r.Intn(12))}})
	}
	for i, k := 0, r.Range(1, 3); i < k; i++ {
		rest = append(rest, sim.Step{Op: "sign", I: []int64{int64(r.Intn(1000)), int64(tam.Intn(4)), int64(tam.Intn(1 << 16))}})
	}
	for i, k := 0, r.Range(3, 8); i < k; i++ {
		size := []int{0, 0, 0, 1, 99, -1}[r.Intn(6)] // t, t+1, n, t-1 (relative)
		rest = append(rest, sim.Step{Op: "recover", I: []int64{int64(r.Intn(1000)), int64(size), int64(r.Intn(1 << 30)), int64(tam.Pick([]int{6, 1, 1})), int64(tam.Intn(1 << 16))}})
	}
	for i, k := 0, r.Range(1, 3); i < k; i++ {
		rest = append(rest, sim.Step{Op: "sos", A: r.Intn(12), I: []int64{int64(tam.Intn(3)), int64(tam.Intn(1 << 16))}})
	}
	for i, k := 0, r.Pick([]int{3, 3, 2, 1}); i < k; i++ {
		// after the DKG: a conflicting share for an already stored sender is redelivered to party A with force=false
		// I: sender, kind (stale polynomial / shifted scalar / undecodable), arg, what the party does next
		// (0-2: aggregates again as in "reaggregate", 3: nothing), message selector
		rest = append(rest, sim.Step{Op: "conflict", A: r.Intn(12), I: []int64{int64(r.Intn(12)), int64(tam.Intn(3)), int64(tam.Intn(1 << 16)), int64(r.Intn(4)), int64(r.Intn(1000))}})
	}
	for i, k := 0, r.Range(1, 3); i < k; i++ {
		tn := r.Range(1, 9)
		// I[6]: malformed share string offered to the reconstruction (0: none), I[7]: who offers it / where / how
		rest = append(rest, sim.Step{Op: "threshold", I: []int64{int64(r.Range(1, tn)), int64(tn), int64(r.Intn(1 << 30)), int64(r.Intn(1000)), int64(r.Intn(2)), int64(tam.Pick([]int{5, 1})),
			int64(tam.Pick([]int{3, 1, 1, 1, 1, 1})), int64(tam.Intn(1 << 16))}})
	}
	for i, k := 0, r.Range(1, 3); i < k; i++ {
		rest = append(rest, sim.Step{Op: "split", I: []int64{int64(r.Range(1, 6)), int64(r.Intn(1 << 30)), int64(r.Intn(1000)), int64(tam.Pick([]int{5, 1}))}})
	}
	r.Shuffle(len(rest), func(a, b int) { rest[a], rest[b] = rest[b], rest[a] })
	p.Steps = append(p.Steps, rest...)
	return p
}

type c34Party struct {
	id   string // miner id (hex)
	pid  bls.PartyID
	dkg  *bls.DKG
	mpk  []bls.PublicKey         // what it published
	view map[int][]bls.PublicKey // corrupted copies of other parties' Mpk it currently holds
	got  map[int]bool            // valid share of party k stored
	redo bool                    // saw a duplicate or retransmitted share: will aggregate again
	old  *bls.DKG                // the party's polynomial of an abandoned earlier attempt (made on demand)
}

func execC34(env *sim.Env, p *sim.Plan) *sim.Result {
	tr := sim.NewTrace()
	tr.Keep = keepLog(env)
	world()
	n := int(p.CfgInt("n", 3))
	t := int(p.CfgInt("t", 2))
	if n < 1 {
		n = 1
	}
	if t < 1 {
		t = 1
	}
	if t > n {
		t = n
	}
	keys := sim.NewRNG(p.Seed).Child("keys")
	wkit.SeedBLS(keys.Child("bls-rand"))
	viol := func(oracle, sig, detail string) {
		tr.Violate(&sim.Violation{Prop: "C34", Oracle: oracle, Sig: "C34/" + sig, Detail: detail})
	}
	ps := make([]*c34Party, n)
	for i := range ps {
		id := encryption.Hash(fmt.Sprintf("party %d of run %d", i, p.Seed))
		d := bls.MakeDKG(t, n, id)
		ps[i] = &c34Party{id: id, pid: bls.ComputeIDdkg(id), dkg: d, mpk: d.GetMPKs(), view: map[int][]bls.PublicKey{}, got: map[int]bool{}}
		if len(ps[i].mpk) != t {
			viol("dkg", "mpk-length", fmt.Sprintf("party published %d coefficients for t=%d", len(ps[i].mpk), t))
		}
	}
	tr.Event("dkg t=%d n=%d", t, n)
	mpkOf := func(recv, from int) []bls.PublicKey {
		if v, ok := ps[recv].view[from]; ok {
			return v
		}
		return ps[from].mpk
	}
	// every party stores its own share of its own polynomial locally (no network)
	for i, pt := range ps {
		sh, err := pt.dkg.ComputeDKGKeyShare(pt.pid)
		if err != nil {
			viol("dkg", "compute-share-error", err.Error())
			continue
		}
		if !pt.dkg.ValidateShare(pt.mpk, sh) {
			viol("share-validation", "honest-share-rejected", "a party's own share does not validate against its own Mpk")
		}
		if err := pt.dkg.AddSecretShare(pt.pid, sh.GetHexString(), false); err != nil {
			viol("dkg", "add-share-error", err.Error())
		}
		pt.got[i] = true
	}
	// deliver: the receiving party's handling of one share message
	deliver := func(from, to int, claimed int, shareHex string, honest bool, what string) {
		var sh bls.Key
		if err := sh.SetHexString(shareHex); err != nil {
			tr.Event("share %d->%d %s: undecodable", from, to, what)
			tr.Outcome("share/undecodable")
			return
		}
		if !honest {
			// with a constant polynomial (t=1) every share of a dealer is the same scalar: a "misaddressed"
			// share then is the honest share, not a corruption
			var want bls.Key
			if ws, err := ps[claimed].dkg.ComputeDKGKeyShare(ps[to].pid); err == nil {
				want = ws
			}
			if want.IsEqual(&sh) {
				tr.Outcome("skip/no-effect")
				return
			}
		}
		mp := mpkOf(to, claimed)
		_, corruptedMpk := ps[to].view[claimed]
		ok := ps[to].dkg.ValidateShare(mp, sh)
		tr.Event("share %d->%d as=%d %s mpk-corrupt=%v valid=%v", from, to, claimed, what, corruptedMpk, ok)
		tr.Outcome(fmt.Sprintf("share/%s/%v", what, ok))
		switch {
		case honest && !corruptedMpk && !ok:
			viol("share-validation", "honest-share-rejected", fmt.Sprintf("share of party %d for party %d does not validate against the sender's published Mpk (t=%d n=%d)", from, to, t, n))
		case (!honest || corruptedMpk) && ok:
			viol("share-validation", "corrupt-share-accepted/"+map[bool]string{true: "mpk", false: what}[honest],
				fmt.Sprintf("ValidateShare accepted %s (sender %d, receiver %d, t=%d n=%d)", map[bool]string{true: "an honest share against a corrupted Mpk copy", false: "a corrupted share (" + what + ")"}[honest], from, to, t, n))
		}
		if ok && honest && !corruptedMpk {
			// what the miner does with a validated share
			if err := ps[to].dkg.AddSecretShare(ps[claimed].pid, shareHex, false); err != nil {
				viol("dkg", "add-share-error", fmt.Sprintf("AddSecretShare refused a validated share (duplicate delivery?): %v", err))
			}
			if ps[to].got[claimed] {
				tr.Probe("duplicate-share-delivered")
				ps[to].redo = true
			}
			ps[to].got[claimed] = true
			if what == "retransmit" {
				ps[to].redo = true
			}
		}
	}
	honestShare := func(from, to int) string {
		sh, err := ps[from].dkg.ComputeDKGKeyShare(ps[to].pid)
		if err != nil {
			panic(err)
		}
		// the wire form the miner sends
		ks := ps[from].dkg.GetDKGKeyShare(ps[to].pid)
		if ks == nil || ks.Share != sh.GetHexString() {
			viol("dkg", "key-share-entity", "GetDKGKeyShare does not return the computed share")
			return sh.GetHexString()
		}
		return ks.Share
	}
	storedShares := func(i int) string {
		xs := ps[i].dkg.GetSecretKeyShares()
		sort.Strings(xs)
		return fmt.Sprint(xs)
	}
	// conflict: a share that differs from the one party `to` has already stored for party `from` is offered with
	// force=false.  kind 0: the share party `from` dealt in an abandoned earlier attempt (it validates against the Mpk
	// published in that attempt, so the shipped receive path hands it to AddSecretShare); kind 1: the stored share
	// shifted by a scalar (what a restart reads back from a damaged DKG summary); kind 2: an undecodable string.
	// The offer must be refused and must leave what the party holds untouched.  Reports whether an offer was made.
	conflict := func(from, to, kind int, arg int64) bool {
		if !ps[to].got[from] {
			return false
		}
		hs := honestShare(from, to)
		var offer, what string
		switch kind {
		case 0:
			what = "stale-polynomial"
			if ps[from].old == nil {
				ps[from].old = bls.MakeDKG(t, n, ps[from].id)
			}
			od := ps[from].old
			sh, err := od.ComputeDKGKeyShare(ps[to].pid)
			if err != nil {
				viol("dkg", "compute-share-error", err.Error())
				return false
			}
			if !ps[to].dkg.ValidateShare(od.GetMPKs(), sh) {
				viol("share-validation", "honest-share-rejected", fmt.Sprintf("share of party %d's earlier polynomial for party %d does not validate against the Mpk published with it (t=%d n=%d)", from, to, t, n))
			}
			offer = sh.GetHexString()
		case 1:
			what = "scalar-shift"
			var sh, d bls.Key
			_ = sh.SetHexString(hs)
			_ = d.SetDecString(fmt.Sprint(1 + arg%1000))
			sh.Add(&d)
			offer = sh.GetHexString()
		default:
			what = "undecodable"
			offer = []string{"", "zz", hs + "g", "-", " "}[int(arg)%5]
		}
		if offer == hs {
			tr.Outcome("skip/no-effect")
			return false
		}
		before := storedShares(to)
		err := ps[to].dkg.AddSecretShare(ps[from].pid, offer, false)
		tr.Fault("conflicting_share_" + what)
		tr.Event("conflicting share %d->%d %s refused=%v stored-unchanged=%v", from, to, what, err != nil, before == storedShares(to))
		tr.Outcome(fmt.Sprintf("conflict/%s/%v", what, err != nil))
		changed := before != storedShares(to)
		switch {
		case err == nil && kind == 2 && !changed:
			tr.Probe("undecodable-share-decoded-to-stored-value") // e.g. another spelling of the same scalar
		case err == nil:
			viol("dkg", "conflicting-share-accepted/"+what, fmt.Sprintf("AddSecretShare(force=false) accepted a share (%s) for party %d although party %d already holds a different share of that party (t=%d n=%d)", what, from, to, t, n))
		case changed:
			viol("dkg", "refused-share-changed-state/"+what, fmt.Sprintf("AddSecretShare(force=false) refused a conflicting share (%s) of party %d at party %d, but the shares party %d holds changed (t=%d n=%d)", what, from, to, to, t, n))
		}
		return true
	}
	finished := false
	var gpk bls.PublicKey
	verifiers := []int{}
	allMpks := func() map[bls.PartyID][]bls.PublicKey {
		m := map[bls.PartyID][]bls.PublicKey{}
		for _, pt := range ps {
			m[pt.pid] = pt.mpk
		}
		return m
	}
	// group-derived public key of every party == public key of its aggregated secret
	checkKeys := func(when string) {
		for i, pt := range ps {
			for _, v := range verifiers {
				k := ps[v].dkg.GetPublicKeyByID(pt.pid)
				if pt.dkg.Pi == nil || !k.IsEqual(pt.dkg.Pi) {
					viol("key-consistency", "public-key-share-mismatch", fmt.Sprintf("party %d's aggregated secret key does not match the public key party %d derives for it (%s; t=%d n=%d)", i, v, when, t, n))
				}
			}
		}
	}
	// reaggregate: party i runs the shipped aggregation step(s) again on the same DKG object.
	// mode 0: secret shares, 1: public shares (if i is a verifier), 2: both
	reaggregate := func(i, mode int, why string) {
		if mode != 1 {
			ps[i].dkg.AggregateSecretKeyShares()
			tr.Fault("reaggregate_secret")
		}
		if mode != 0 {
			for _, v := range verifiers {
				if v == i {
					if err := ps[i].dkg.AggregatePublicKeyShares(allMpks()); err != nil {
						viol("dkg", "aggregate-public-error", err.Error())
					}
					tr.Fault("reaggregate_public")
				}
			}
		}
		tr.Event("party %d aggregates again mode=%d (%s)", i, mode, why)
		tr.Outcome(fmt.Sprintf("reaggregate/m%d", mode))
		checkKeys("after party " + fmt.Sprint(i) + " aggregated again, " + why)
	}
	complete := func() {
		if finished {
			return
		}
		finished = true
		// heal Mpk copies, retransmit whatever is still missing, honestly
		for _, pt := range ps {
			pt.view = map[int][]bls.PublicKey{}
		}
		for i := 0; i < n; i++ {
			for j := 0; j < n; j++ {
				if !ps[j].got[i] {
					tr.Fault("retransmit")
					deliver(i, j, i, honestShare(i, j), true, "retransmit")
				}
			}
		}
		mpks := map[bls.PartyID][]bls.PublicKey{}
		for _, pt := range ps {
			mpks[pt.pid] = pt.mpk
		}
		// oracle's own group key: sum of constant coefficients
		for i, pt := range ps {
			if i == 0 {
				gpk = pt.mpk[0]
			} else {
				gpk.Add(&pt.mpk[0])
			}
		}
		nv := int(p.CfgInt("verifiers", 2))
		if n <= 5 || nv > n {
			nv = n
		}
		for i := 0; i < nv; i++ {
			verifiers = append(verifiers, (i*7+int(p.Seed%uint64(n)))%n)
		}
		sort.Ints(verifiers)
		verifiers = uniqInts(verifiers)
		for i, pt := range ps {
			if pt.dkg.GetSecretSharesSize() != n {
				viol("dkg", "share-count", fmt.Sprintf("party %d holds %d shares, expected %d", i, pt.dkg.GetSecretSharesSize(), n))
			}
			pt.dkg.AggregateSecretKeyShares()
		}
		for _, v := range verifiers {
			if err := ps[v].dkg.AggregatePublicKeyShares(mpks); err != nil {
				viol("dkg", "aggregate-public-error", err.Error())
			}
		}
		checkKeys("first aggregation")
		// a party that saw a share twice (duplicate, resent after loss) runs the aggregation step again,
		// the way a retried view-change "wait" step does; the keys must not move
		for i, pt := range ps {
			if pt.redo {
				reaggregate(i, 2, "after duplicate/retransmitted share")
			}
		}
		tr.Event("aggregated t=%d n=%d verifiers=%v", t, n, verifiers)
	}
	msgOf := func(sel int64) string { return encryption.Hash(fmt.Sprintf("round-%d-seed-%d", sel, p.Seed%97)) }

	for _, st := range p.Steps {
		switch st.Op {
		case "share":
			if finished {
				tr.Outcome("skip/late-share")
				continue
			}
			from, to := st.A%n, int(st.Int(0, 0))%n
			if from == to {
				tr.Outcome("skip/self")
				continue
			}
			fault := int(st.Int(1, 0))
			arg := st.Int(2, 0)
			hs := honestShare(from, to)
			switch fault {
			case 0:
				deliver(from, to, from, hs, true, "honest")
			case 1:
				tr.Fault("drop")
				tr.Event("share %d->%d dropped", from, to)
			case 2:
				tr.Fault("duplicate")
				deliver(from, to, from, hs, true, "honest")
			case 3, 7:
				tr.Fault("corrupt_scalar")
				var sh, one bls.Key
				_ = sh.SetHexString(hs)
				_ = one.SetDecString("1")
				if fault == 7 {
					_ = one.SetDecString(fmt.Sprint(2 + arg%1000))
				}
				sh.Add(&one)
				deliver(from, to, from, sh.GetHexString(), false, "scalar-shift")
			case 4:
				tr.Fault("corrupt_bitflip")
				var sh bls.Key
				_ = sh.SetHexString(hs)
				b := sh.GetLittleEndian()
				bit := int(arg) % (len(b)*8 - 8) // stay below the modulus' top byte
				b[bit/8] ^= 1 << (bit % 8)
				var x bls.Key
				if err := x.SetLittleEndian(b); err != nil || x.IsEqual(&sh) {
					tr.Outcome("skip/no-effect")
					continue
				}
				deliver(from, to, from, x.GetHexString(), false, "bit-flip")
			case 5:
				if n < 3 {
					tr.Outcome("skip/too-few")
					continue
				}
				tr.Fault("misaddressed")
				o := (to + 1 + int(arg)%(n-1)) % n
				if o == from {
					o = (o + 1) % n
					if o == to {
						o = (o + 1) % n
					}
				}
				// the share computed for party o is delivered to party to
				deliver(from, to, from, honestShare(from, o), false, "misaddressed")
			case 6:
				if n < 3 {
					tr.Outcome("skip/too-few")
					continue
				}
				tr.Fault("wrong_sender")
				o := (from + 1 + int(arg)%(n-1)) % n
				if o == to {
					o = (o + 1) % n
					if o == from {
						o = (o + 1) % n
					}
				}
				// a genuine share of party from, presented as coming from party o
				deliver(from, to, o, hs, false, "wrong-sender")
			case 8:
				// conflicting redelivery: only meaningful once the original is stored; before that it is just a
				// corrupted share and goes through validation like the others
				if conflict(from, to, int(arg)%3, arg/3) {
					ps[to].redo = true
					continue
				}
				tr.Fault("corrupt_scalar")
				var sh, d bls.Key
				_ = sh.SetHexString(hs)
				_ = d.SetDecString(fmt.Sprint(1 + (arg/3)%1000))
				sh.Add(&d)
				deliver(from, to, from, sh.GetHexString(), false, "scalar-shift")
			default:
				deliver(from, to, from, hs, true, "honest")
			}
		case "mpk":
			if finished || n < 2 || t < 1 {
				tr.Outcome("skip/mpk")
				continue
			}
			recv, of := st.A%n, int(st.Int(0, 0))%n
			if recv == of {
				of = (of + 1) % n
			}
			cp := append([]bls.PublicKey(nil), ps[of].mpk...)
			k := int(st.Int(1, 0)) % len(cp)
			// replace coefficient k by a coefficient of somebody else's polynomial
			cp[k] = ps[recv].mpk[(k+1)%len(ps[recv].mpk)]
			if cp[k].IsEqual(&ps[of].mpk[k]) {
				tr.Outcome("skip/no-effect")
				continue
			}
			ps[recv].view[of] = cp
			tr.Fault("corrupt_mpk")
			tr.Event("mpk copy of %d at %d corrupted (coefficient %d)", of, recv, k)
		case "finish":
			complete()
		case "reaggregate":
			complete()
			i := st.A % n
			if st.Int(1, 0) == 1 {
				// a late duplicate of an honest share arrives first (AddSecretShare accepts the identical share)
				from := int(st.Int(2, 0)) % n
				if err := ps[i].dkg.AddSecretShare(ps[from].pid, honestShare(from, i), false); err != nil {
					viol("dkg", "add-share-error", fmt.Sprintf("AddSecretShare refused an identical late duplicate: %v", err))
				}
				tr.Fault("late_duplicate")
			}
			reaggregate(i, int(st.Int(0, 0))%3, "explicit step")
		case "conflict":
			complete()
			to, from := st.A%n, int(st.Int(0, 0))%n
			msg := msgOf(st.Int(4, 0))
			sigBefore := ps[to].dkg.Sign(msg).GetHexString()
			if !conflict(from, to, int(st.Int(1, 0))%3, st.Int(2, 0)) {
				continue
			}
			if next := int(st.Int(3, 0)); next >= 0 && next < 3 {
				reaggregate(to, next, "after a refused conflicting share")
			}
			// the party's aggregate is what it was: same signature share, still valid under the key derived for it
			sg := ps[to].dkg.Sign(msg)
			if sg.GetHexString() != sigBefore {
				viol("key-consistency", "aggregate-changed-after-refused-share", fmt.Sprintf("party %d signs differently after a conflicting share of party %d was refused (t=%d n=%d)", to, from, t, n))
			}
			for _, v := range verifiers {
				if !ps[v].dkg.VerifySignature(sg, msg, ps[to].pid) {
					viol("share-signature", "honest-sigshare-rejected", fmt.Sprintf("signature share of party %d does not verify under the public key party %d derived for it, after a conflicting share of party %d was refused (t=%d n=%d)", to, v, from, t, n))
				}
			}
		case "sign":
			complete()
			msg := msgOf(st.Int(0, 0))
			mode := int(st.Int(1, 0))
			for i, pt := range ps {
				sg := pt.dkg.Sign(msg)
				for _, v := range verifiers {
					ok := ps[v].dkg.VerifySignature(sg, msg, pt.pid)
					if !ok {
						viol("share-signature", "honest-sigshare-rejected", fmt.Sprintf("signature share of party %d does not verify under the public key party %d derived for it (t=%d n=%d)", i, v, t, n))
					}
					// byzantine variants of the same share message
					var bad bool
					switch mode {
					case 1: // other message
						bad = ps[v].dkg.VerifySignature(sg, msgOf(st.Int(0, 0)+1), pt.pid)
						tr.Fault("sigshare_other_message")
					case 2: // claimed to come from another party
						if n > 1 {
							ki, ko := ps[v].dkg.GetPublicKeyByID(pt.pid), ps[v].dkg.GetPublicKeyByID(ps[(i+1)%n].pid)
							if !ki.IsEqual(&ko) { // t=1: all parties hold the same key
								bad = ps[v].dkg.VerifySignature(sg, msg, ps[(i+1)%n].pid)
								tr.Fault("sigshare_wrong_party")
							}
						}
					case 3: // corrupted share
						d, _ := sigToG1(ps[0].dkg.Sign(msgOf(st.Int(2, 0) + 7)).SerializeToHexStr())
						if s, err := sigShift(sg.SerializeToHexStr(), d, false); err == nil {
							var x bls.Sign
							if x.DeserializeHexStr(s) == nil {
								bad = ps[v].dkg.VerifySignature(&x, msg, pt.pid)
								tr.Fault("sigshare_corrupt")
							}
						}
					}
					if bad {
						viol("share-signature", fmt.Sprintf("bad-sigshare-accepted/m%d", mode), fmt.Sprintf("VerifySignature accepted a byzantine variant (mode %d) of party %d's signature share", mode, i))
					}
				}
			}
			tr.Event("sign msg=%d mode=%d ok", st.Int(0, 0), mode)
			tr.Outcome(fmt.Sprintf("sign/m%d", mode))
		case "recover":
			complete()
			msg := msgOf(st.Int(0, 0))
			size := t
			switch st.Int(1, 0) {
			case 1:
				size = t + 1
			case 99:
				size = n
			case -1:
				size = t - 1
			}
			if size > n {
				size = n
			}
			if size < 1 {
				tr.Outcome("skip/empty-subset")
				continue
			}
			perm := sim.NewRNG(uint64(st.Int(2, 0))).Perm(n)[:size]
			ids := make([]bls.PartyID, size)
			sigs := make([]bls.Sign, size)
			hexSigs := make([]string, size)
			hexIDs := make([]string, size)
			for k, i := range perm {
				ids[k] = ps[i].pid
				sigs[k] = *ps[i].dkg.Sign(msg)
				hexSigs[k] = sigs[k].GetHexString()
				hexIDs[k] = ps[i].pid.GetHexString()
			}
			corrupt := int(st.Int(3, 0))
			switch corrupt {
			case 1: // one share replaced by a share over another message
				k := int(st.Int(4, 0)) % size
				sigs[k] = *ps[perm[k]].dkg.Sign(msgOf(st.Int(0, 0) + 1))
				hexSigs[k] = sigs[k].GetHexString()
				tr.Fault("recover_with_bad_share")
			case 2: // share attributed to the wrong party
				if size >= 2 {
					ids[0], ids[1] = ids[1], ids[0]
					hexIDs[0], hexIDs[1] = hexIDs[1], hexIDs[0]
					tr.Fault("recover_with_swapped_ids")
				} else {
					corrupt = 0
				}
			}
			who := ps[perm[0]].dkg
			g1, err1 := who.RecoverGroupSig(ids, sigs)
			g2, err2 := who.CalBlsGpSign(hexSigs, hexIDs)
			if err1 != nil || err2 != nil {
				if corrupt == 0 {
					viol("recover", "recover-error", fmt.Sprintf("recovering from %d honest shares failed: %v / %v", size, err1, err2))
				}
				tr.Event("recover size=%d corrupt=%d error", size, corrupt)
				continue
			}
			if !g1.IsEqual(&g2) {
				viol("recover", "recover-apis-disagree", "RecoverGroupSig and CalBlsGpSign recover different signatures from the same shares")
			}
			good := g1.Verify(&gpk, msg)
			// reference: the first t parties in index order
			refIDs := make([]bls.PartyID, t)
			refSigs := make([]bls.Sign, t)
			for i := 0; i < t; i++ {
				refIDs[i], refSigs[i] = ps[i].pid, *ps[i].dkg.Sign(msg)
			}
			ref, _ := who.RecoverGroupSig(refIDs, refSigs)
			same := ref.IsEqual(&g1)
			tr.Event("recover size=%d(t=%d) corrupt=%d verifies=%v same-as-reference=%v", size, t, corrupt, good, same)
			tr.Outcome(fmt.Sprintf("recover/%s/c%d/%v", sizeClass(size, t), corrupt, good))
			switch {
			case corrupt == 0 && size >= t && !good:
				viol("recover", "group-signature-invalid/"+sizeClass(size, t), fmt.Sprintf("group signature recovered from %d honest shares (t=%d n=%d, order %v) does not verify under the group public key", size, t, n, perm))
			case corrupt == 0 && size >= t && !same:
				viol("recover", "group-signature-differs/"+sizeClass(size, t), fmt.Sprintf("shares %v recover a different group signature than shares 0..t-1 (t=%d n=%d)", perm, t, n))
			case corrupt == 0 && size < t && good:
				tr.Probe("fewer-than-t-shares-verify")
			case corrupt != 0 && good && t > 1:
				viol("recover", fmt.Sprintf("corrupt-shares-recover-valid/c%d", corrupt), fmt.Sprintf("a share set with corruption %d recovered a signature that verifies under the group key (size %d t=%d)", corrupt, size, t))
			case corrupt == 0 && size < t:
				tr.Probe("fewer-than-t-shares-fail")
			}
		case "sos":
			complete()
			i := st.A % n
			if n < 2 {
				tr.Outcome("skip/sos")
				continue
			}
			mpks := block.NewMpks()
			for _, pt := range ps {
				m := &block.MPK{ID: pt.id}
				for _, pk := range pt.mpk {
					m.Mpk = append(m.Mpk, pk.GetHexString())
				}
				mpks.Mpks[pt.id] = m
			}
			sos := block.NewShareOrSigns()
			sos.ID = ps[i].id
			pubs := map[string]string{}
			signer := map[int]*simClient{}
			var expectKeys []string
			for j, o := range ps {
				if j == i {
					continue
				}
				ks := &bls.DKGKeyShare{Share: honestShare(i, j)}
				ks.ID = o.id
				// the contract passes the public keys of every miner of the DKG set (dmn.SimpleNodes)
				c := newSimClient("bls0chain", keys.Child(fmt.Sprintf("node-key-%d", j)))
				pubs[o.id] = c.pk
				if (i+j)%3 == 0 {
					// the recipient acknowledged with a signature instead of the share being revealed
					signer[j] = c
					ks.Message = encryption.Hash(ks.Share)
					ks.Sign, _ = c.ss.Sign(ks.Message)
					ks.Share = ""
				} else {
					expectKeys = append(expectKeys, o.id)
				}
				sos.ShareOrSigns[o.id] = ks
			}
			mode := int(st.Int(0, 0))
			var victim string
			ids := make([]string, 0, len(sos.ShareOrSigns))
			for k := range sos.ShareOrSigns {
				ids = append(ids, k)
			}
			sort.Strings(ids)
			victim = ids[int(st.Int(1, 0))%len(ids)]
			e := sos.ShareOrSigns[victim]
			switch mode {
			case 1:
				if e.Share != "" {
					e.Share = alterChar(e.Share, int(st.Int(1, 0)))
				} else {
					e.Sign, _ = flipHexBit(e.Sign, int(st.Int(1, 0)))
				}
				tr.Fault("sos_corrupt_entry")
			case 2:
				if e.Share != "" && n > 2 {
					// a share computed for somebody else
					was := e.Share
					for j, o := range ps {
						if o.id != victim && j != i {
							e.Share = honestShare(i, j)
							break
						}
					}
					if e.Share == was { // t=1: constant polynomial, all shares equal
						mode = 0
					} else {
						tr.Fault("sos_misaddressed_share")
					}
				} else {
					mode = 0
				}
			}
			got, ok := sos.Validate(mpks, pubs, encryption.NewBLS0ChainScheme())
			sort.Strings(got)
			sort.Strings(expectKeys)
			tr.Event("sos party=%d mode=%d ok=%v shares=%d", i, mode, ok, len(got))
			tr.Outcome(fmt.Sprintf("sos/m%d/%v", mode, ok))
			switch {
			case mode == 0 && (!ok || fmt.Sprint(got) != fmt.Sprint(expectKeys)):
				viol("share-validation", "sos-honest-rejected", fmt.Sprintf("ShareOrSigns.Validate rejected an honest share-or-sign record (ok=%v, %d/%d shares)", ok, len(got), len(expectKeys)))
			case mode != 0 && ok:
				viol("share-validation", fmt.Sprintf("sos-corrupt-accepted/m%d", mode), "ShareOrSigns.Validate accepted a record with a corrupted entry")
			}
		case "threshold":
			tt, tn := int(st.Int(0, 1)), int(st.Int(1, 1))
			if tn < 1 {
				tn = 1
			}
			if tt < 1 {
				tt = 1
			}
			if tt > tn {
				tt = tn
			}
			orig := wkitKeys(keys.Child(fmt.Sprintf("client-%d", st.Int(3, 0))))
			hash := msgOf(st.Int(3, 0))
			shares, err := encryption.GenerateThresholdKeyShares(encryption.SignatureSchemeBls0chain, tt, tn, orig)
			if err != nil || len(shares) != tn {
				viol("client-threshold", "generate-error", fmt.Sprintf("GenerateThresholdKeyShares(%d,%d): %v (%d shares)", tt, tn, err, len(shares)))
				continue
			}
			size := tt
			if st.Int(4, 0) == 1 && tt < tn {
				size = tt + 1
			}
			perm := sim.NewRNG(uint64(st.Int(2, 0))).Perm(tn)[:size]
			rec := encryption.GetReconstructSignatureScheme(encryption.SignatureSchemeBls0chain, tt, tn)
			corrupt := st.Int(5, 0) == 1 && tt > 1
			// a malformed / empty share string is offered to the same reconstruction object before the k-th valid
			// share (k == size: after the last one).  A refused offer must not matter: the valid shares still
			// reconstruct.  An offer that is not refused becomes part of the share set (like a corrupted share).
			mal, marg := int(st.Int(6, 0)), int(st.Int(7, 0))
			malAt, refused, polluted := -1, 0, false
			if mal != 0 {
				malAt = marg % (size + 1)
			}
			offerMalformed := func() {
				who := shares[(marg/16)%tn]
				good, err := who.Sign(hash)
				if err != nil || len(good) < 8 {
					return
				}
				var s, what string
				switch mal {
				case 1:
					s, what = "", "empty"
				case 2:
					s, what = "not-a-signature-share", "non-hex"
				case 3:
					s, what = good[:len(good)/2&^1], "truncated"
				case 4:
					s, what = good[:len(good)-1], "odd-length"
				default:
					s, what = alterChar(good, marg/256), "altered"
				}
				if s == good {
					return
				}
				err = rec.Add(who, s)
				tr.Fault("threshold_malformed_share_" + what)
				tr.Event("threshold malformed share (%s) before valid share %d of %d refused=%v", what, malAt, size, err != nil)
				tr.Outcome(fmt.Sprintf("threshold-malformed/%s/%v", what, err != nil))
				if err != nil {
					refused++
				} else {
					polluted = true
					tr.Probe("malformed-share-not-refused")
				}
			}
			for k, i := range perm {
				if k == malAt {
					offerMalformed()
				}
				h := hash
				if corrupt && k == 0 {
					h = msgOf(st.Int(3, 0) + 1)
					tr.Fault("threshold_bad_share")
				}
				sg, err := shares[i].Sign(h)
				if err != nil {
					viol("client-threshold", "sign-error", err.Error())
					continue
				}
				// an individual share signature verifies under the share's own public key
				if ok, _ := shares[i].Verify(sg, h); !ok {
					viol("client-threshold", "share-signature-invalid", "a threshold key share's signature does not verify under the share's public key")
				}
				if err := rec.Add(shares[i], sg); err != nil {
					viol("client-threshold", "add-error", err.Error())
				}
			}
			if malAt == size {
				offerMalformed()
			}
			after := ""
			if refused > 0 {
				after = "/after-refused-share"
			}
			sg, err := rec.Reconstruct()
			if err != nil {
				if !polluted {
					viol("client-threshold", "reconstruct-error"+after, fmt.Sprintf("%v (t=%d n=%d, %d valid shares, %d malformed offers refused)", err, tt, tn, size, refused))
				}
				tr.Event("threshold t=%d n=%d subset=%d corrupt=%v polluted=%v reconstruct error", tt, tn, size, corrupt, polluted)
				continue
			}
			ok, _ := orig.Verify(sg, hash)
			direct, _ := orig.Sign(hash)
			tr.Event("threshold t=%d n=%d subset=%d corrupt=%v refused=%d polluted=%v verifies=%v equals-direct=%v", tt, tn, size, corrupt, refused, polluted, ok, sg == direct)
			tr.Outcome(fmt.Sprintf("threshold/%v/%v", corrupt || polluted, ok))
			tainted := corrupt || polluted
			switch {
			case !tainted && !ok:
				viol("client-threshold", "reconstructed-invalid"+after, fmt.Sprintf("signature reconstructed from %d of %d threshold shares (t=%d, order %v, %d malformed offers refused) does not verify under the original key", size, tn, tt, perm, refused))
			case !tainted && sg != direct:
				viol("client-threshold", "reconstructed-differs"+after, "reconstructed signature differs from the original key's own signature")
			case corrupt && !polluted && ok:
				viol("client-threshold", "corrupt-reconstructs-valid", "a share set containing a signature over another message reconstructed a valid signature")
			}
		case "split":
			k := int(st.Int(0, 2))
			if k < 1 {
				k = 1
			}
			orig := wkitKeys(keys.Child(fmt.Sprintf("split-client-%d", st.Int(2, 0))))
			hash := msgOf(st.Int(2, 0))
			parts, err := orig.GenerateSplitKeys(k)
			if err != nil || len(parts) != k {
				viol("client-split", "generate-error", fmt.Sprintf("GenerateSplitKeys(%d): %v", k, err))
				continue
			}
			corrupt := st.Int(3, 0) == 1
			perm := sim.NewRNG(uint64(st.Int(1, 0))).Perm(k)
			sigs := make([]string, 0, k)
			for idx, i := range perm {
				h := hash
				if corrupt && idx == 0 {
					h = msgOf(st.Int(2, 0) + 1)
					tr.Fault("split_bad_part")
				}
				sg, err := parts[i].Sign(h)
				if err != nil {
					viol("client-split", "sign-error", err.Error())
					continue
				}
				if ok, _ := parts[i].Verify(sg, h); !ok {
					viol("client-split", "part-signature-invalid", "a split key's signature does not verify under the split key's own public key")
				}
				sigs = append(sigs, sg)
			}
			agg, err := orig.AggregateSignatures(sigs)
			if err != nil {
				viol("client-split", "aggregate-error", err.Error())
				continue
			}
			ok, _ := orig.Verify(agg, hash)
			tr.Event("split k=%d corrupt=%v verifies=%v", k, corrupt, ok)
			tr.Outcome(fmt.Sprintf("split/%v/%v", corrupt, ok))
			switch {
			case !corrupt && !ok:
				viol("client-split", "aggregated-invalid", fmt.Sprintf("aggregate of the %d split keys' signatures does not verify under the original key", k))
			case corrupt && ok:
				viol("client-split", "corrupt-aggregates-valid", "aggregate containing a signature over another message verifies under the original key")
			}
		default:
			tr.Outcome("skip/unknown-op")
		}
	}
	return finish(tr, p.Seed)
}

func wkitKeys(r *sim.RNG) *encryption.BLS0ChainScheme {
	return wkit.NewKeys("bls0chain", r).(*encryption.BLS0ChainScheme)
}

func sizeClass(size, t int) string {
	switch {
	case size == t:
		return "t"
	case size > t:
		return "more-than-t"
	}
	return "fewer-than-t"
}

func uniqInts(xs []int) []int {
	out := xs[:0]
	for i, x := range xs {
		if i == 0 || x != xs[i-1] {
			out = append(out, x)
		}
	}
	return out
}
