package crypto

import (
	"context"
	"encoding/hex"
	"fmt"
	"os"
	"sync"

	"0chain.net/chaincore/block"
	"0chain.net/chaincore/chain"
	"0chain.net/chaincore/client"
	"0chain.net/chaincore/node"
	"0chain.net/chaincore/round"
	"0chain.net/chaincore/transaction"
	"0chain.net/core/common"
	"0chain.net/core/config"
	"0chain.net/core/datastore"
	"0chain.net/core/encryption"
	"0chain.net/miner"
	"github.com/herumi/bls-go-binary/bls"

	"verif/sim"
	"verif/worlds/wkit"
)

// nopStore is the datastore.Store seam (redis in production). None of the
// validation code under check reads or writes it; the entity packages only
// need *a* store to register their metadata.
type nopStore struct{}

func (nopStore) Read(context.Context, datastore.Key, datastore.Entity) error {
	return common.NewError("entity_not_found", "simulated store is empty")
}
func (nopStore) Write(context.Context, datastore.Entity) error      { return nil }
func (nopStore) InsertIfNE(context.Context, datastore.Entity) error { return nil }
func (nopStore) Delete(context.Context, datastore.Entity) error     { return nil }
func (nopStore) Merge(context.Context, datastore.Entity) error      { return nil }
func (nopStore) MultiRead(context.Context, datastore.EntityMetadata, []datastore.Key, []datastore.Entity) error {
	return nil
}
func (nopStore) MultiWrite(context.Context, datastore.EntityMetadata, []datastore.Entity) error {
	return nil
}
func (nopStore) MultiDelete(context.Context, datastore.EntityMetadata, []datastore.Entity) error {
	return nil
}
func (nopStore) AddToCollection(context.Context, datastore.CollectionEntity) error { return nil }
func (nopStore) MultiAddToCollection(context.Context, datastore.EntityMetadata, []datastore.Entity) error {
	return nil
}
func (nopStore) DeleteFromCollection(context.Context, datastore.CollectionEntity) error { return nil }
func (nopStore) MultiDeleteFromCollection(context.Context, datastore.EntityMetadata, []datastore.Entity) error {
	return nil
}
func (nopStore) GetCollectionSize(context.Context, datastore.EntityMetadata, string) int64 { return 0 }
func (nopStore) IterateCollection(context.Context, datastore.EntityMetadata, string, datastore.CollectionIteratorHandler) error {
	return nil
}

var worldOnce sync.Once

// txnTolerance is the shipped default of server_chain.transaction.timeout.
const txnTolerance = 30

// world performs the one-time process-global setup the real entity code needs
// (same order as the repository's own miner tests): quiet logging, default
// config, chain id, root context, entity metadata over the store seam.
func world() {
	worldOnce.Do(func() {
		wkit.Quiet()
		config.SetupDefaultConfig()
		config.SetServerChainID(config.GetMainChainID())
		common.SetupRootContext(context.Background())
		st := nopStore{}
		transaction.SetupEntity(st)
		transaction.SetTxnTimeout(txnTolerance)
		client.SetupEntity(st)
		block.SetupEntity(st)
		block.SetupBlockSummaryEntity(st)
		round.SetupEntity(st)
		node.Self = &node.SelfNode{}
		node.Self.Node = node.Provider()
		node.Self.Node.Type = node.NodeTypeMiner
	})
}

// newReceiverFor builds a fresh real chain.Chain and points the miner singleton at
// it: the receiving node of a run. scheme is the chain's client signature scheme
// (it selects aggregate vs one-by-one signature verification), batch the
// configured validation batch size.
type receiver struct {
	c      *chain.Chain
	mc     *miner.Chain
	scheme string
}

func newReceiverFor(scheme string, batch int) *receiver {
	world()
	client.SetClientSignatureScheme(scheme)
	c := chain.Provider().(*chain.Chain)
	c.ID = datastore.ToKey(config.GetServerChainID())
	c.ChainConfig = chain.NewConfigImpl(&chain.ConfigData{
		ClientSignatureScheme: scheme,
		ValidationBatchSize:   batch,
		MinGenerators:         1,
		RoundRange:            10000000,
		MinBlockSize:          1,
		MaxByteSize:           1638400,
		ThresholdByCount:      66,
	})
	chain.SetServerChain(c)
	miner.SetupMinerChain(c)
	return &receiver{c: c, mc: miner.GetMinerChain(), scheme: scheme}
}

// ---- sim-owned senders ----------------------------------------------------------------------------

type simClient struct {
	ss encryption.SignatureScheme
	id string
	pk string
}

func newSimClient(scheme string, rng *sim.RNG) *simClient {
	ss := wkit.NewKeys(scheme, rng)
	pk := ss.GetPublicKey()
	b, _ := hex.DecodeString(pk)
	return &simClient{ss: ss, id: encryption.Hash(b), pk: pk}
}

type simMiner struct {
	ss   encryption.SignatureScheme
	node *node.Node
}

// newSimMiner creates a miner identity with a seeded key and a real node.Node
// (registered in the receiver's node registry when added to a pool).
func newSimMiner(scheme string, rng *sim.RNG, idx int) *simMiner {
	ss := wkit.NewKeys(scheme, rng)
	n := node.Provider()
	n.Type = node.NodeTypeMiner
	n.Host = fmt.Sprintf("m%d.sim", idx)
	n.N2NHost = n.Host
	n.Port = 7000 + idx
	n.Status = node.NodeStatusActive
	n.SetSignatureSchemeType(scheme)
	if err := n.SetPublicKey(ss.GetPublicKey()); err != nil {
		panic(err)
	}
	return &simMiner{ss: ss, node: n}
}

// ---- BLS group arithmetic on serialized signatures (the byzantine side) ---------------------------

func sigToG1(sig string) (*bls.G1, error) {
	var s bls.Sign
	if err := s.DeserializeHexStr(sig); err != nil {
		return nil, err
	}
	var g bls.G1
	if err := g.Deserialize(s.Serialize()); err != nil {
		return nil, err
	}
	return &g, nil
}

func g1ToSig(g *bls.G1) string { return hex.EncodeToString(g.Serialize()) }

// sigShift returns sig + delta (sub=false) or sig - delta (sub=true) as group elements.
func sigShift(sig string, delta *bls.G1, sub bool) (string, error) {
	g, err := sigToG1(sig)
	if err != nil {
		return "", err
	}
	var out bls.G1
	if sub {
		bls.G1Sub(&out, g, delta)
	} else {
		bls.G1Add(&out, g, delta)
	}
	return g1ToSig(&out), nil
}

// flipHexBit flips one bit of a hex string (keeps length and hex-ness).
func flipHexBit(s string, bit int) (string, bool) {
	b, err := hex.DecodeString(s)
	if err != nil || len(b) == 0 {
		return s, false
	}
	bit %= len(b) * 8
	b[bit/8] ^= 1 << (bit % 8)
	return hex.EncodeToString(b), true
}

// finish returns the result; with VERIF_DEBUG set it also prints the event log
// (development aid; never influences a decision).
func finish(tr *sim.Trace, seed uint64) *sim.Result {
	if os.Getenv("VERIF_DEBUG") != "" {
		for _, l := range tr.Lines {
			fmt.Fprintln(os.Stderr, l)
		}
	}
	return tr.Result(seed)
}

func keepLog(env *sim.Env) bool { return env.KeepLog || os.Getenv("VERIF_DEBUG") != "" }
