package crypto

import (
	"context"
	"encoding/json"
	"fmt"
	"reflect"
	"sort"

	"0chain.net/chaincore/block"
	"0chain.net/chaincore/transaction"
	"0chain.net/core/common"
	"0chain.net/core/config"
	"0chain.net/core/datastore"
	"0chain.net/core/encryption"
	"github.com/0chain/common/core/currency"

	"verif/sim"
)

// Fields of transaction.Transaction that the statement of C30 names (time,
// nonce, sender, recipient, value, data, fee, type) plus the hash and the
// signature themselves. Tampering with any of them must invalidate the
// transaction. Every other wire field (found by reflection) is mutated as well
// and only noted.
var c30Named = map[string]string{
	"CreationDate": "time", "Nonce": "nonce", "ClientID": "sender", "PublicKey": "sender",
	"ToClientID": "recipient", "Value": "value", "TransactionData": "data", "Fee": "fee",
	"TransactionType": "type", "Hash": "hash", "Signature": "signature",
}

func txnWireFields() []wireField {
	fs := wireLeaves(reflect.TypeOf((*transaction.Transaction)(nil)), "", nil)
	have := map[string]bool{}
	for _, f := range fs {
		have[f.Path] = true
	}
	for n := range c30Named {
		if !have[n] {
			// the statement names it: refusing to run is better than silently not checking it
			panic("C30: field " + n + " named by the property is not a wire field of transaction.Transaction any more")
		}
	}
	return fs
}

func init() {
	sim.Register(&sim.Check{
		ID: "C30", Title: "Transaction signatures bind every field that affects execution", World: "crypto",
		Gen: genC30, Exec: execC30,
		Quick:    sim.Budget{Runs: 2000, WallS: 60},
		Thorough: sim.Budget{Runs: 60000, WallS: 840},
		LevelText: "seeded search: honest sim clients build and sign real transactions (both signature schemes, send / data / smart-contract shapes, boundary values); " +
			"a simulated byzantine link mutates one wire field per delivery (every JSON-visible field of transaction.Transaction found by reflection; numbers +-1/other, strings bit-flipped/replaced/extended/emptied, type switched) " +
			"or forges sender/key/signature combinations; the receiver runs the shipped submission path (JSON decode, ComputeProperties, ValidateWrtTime) or the shipped in-block path (Block.ComputeProperties, miner ValidateTransactions); " +
			"plus histories in one process: the genuine transaction and copies of it with an effect-relevant field changed (hash recomputed or left as signed, original signature attached) are offered 2..5 times in seeded order through seeded entry points " +
			"(submission path, in-block path, VerifyHash+VerifySignature on their own) - the genuine one must be accepted and the copies rejected every time, whatever was validated before. A clean batch is evidence, not proof",
		LevelNote: "input-class property hosted in the simulation: schedules and crashes contribute nothing, the simulator contributes realistic signed messages and the tamper fault. " +
			"Transaction.Validate reads the wall clock, so the submission receiver calls its two constituents (IsHash(ToClientID), ValidateWrtTime) with the simulated receive time instead; nonce/balance/fee-floor checks of chain.PutTransaction need ledger state and are not part of this property",
		Technique: "deterministic simulation: seeded byzantine tamper fault on a simulated link, per struct field by reflection; receiver = real transaction/client/encryption/miner code",
		DesignRef: "6/C30, Appendix B", Regime: "single-threaded event loop (ValidateTransactions' inner worker goroutines run to completion inside one step)",
		Components: sim.Components{
			Real: []string{"chaincore/transaction (Provider, Sign, ComputeProperties, ComputeClientID, ValidateWrtTime, ValidateWrtTimeForBlock, VerifyHash, VerifySignature, VerifyOutputHash)",
				"chaincore/client (client cache, SetPublicKey)", "core/encryption (BLS0Chain, ED25519, aggregate scheme)", "chaincore/block (ComputeProperties)", "miner.Chain.ValidateTransactions", "chaincore/chain (Chain, ConfigImpl)"},
			Sim:  []string{"clients with seeded keys", "tampering link", "receive clock", "block wrapper around the delivered transaction for the in-block path"},
			Stub: []string{"datastore.Store (no-op: nothing on these paths reads it)"},
		},
		Assumptions: []string{
			"a delivery counts as tampered only when the mutated field value differs from the signed one, on the wire and in the entity the receiver ends up with (an emptied ClientID is re-derived from the public key by ComputeClientID and is not a change of sender)",
			"accepted = no error from decode, ComputeProperties and the validation call of the chosen path",
			"Fee and TransactionType acceptance are listed known findings (the transaction hash omits them); every other named field must still be rejected",
		},
	})
}

var c30Shapes = 6

// genC30: every run walks all wire fields once (seeded order, seeded mutation)
// and adds honest deliveries, forgeries and extra random tampers.
func genC30(seed uint64, tier string) *sim.Plan {
	r := sim.NewRNG(seed).Child("plan")
	sw := sim.NewRNG(seed).Child("swarm")
	p := &sim.Plan{Cfg: map[string]int64{
		"scheme":  int64(sw.Intn(2)),
		"clients": int64(sw.Range(2, 4)),
		"batch":   int64([]int{1, 2, 3, 64}[sw.Intn(4)]),
	}}
	fields := txnWireFields()
	tam := sim.NewRNG(seed).Child("tamper")
	mk := func(op, field string) sim.Step {
		return sim.Step{Op: op, A: r.Intn(4), S: []string{field}, I: []int64{
			int64(r.Intn(c30Shapes)),                    // 0 txn shape
			int64(tam.Intn(mutKinds)),                   // 1 mutation kind
			int64(tam.Intn(1 << 20)),                    // 2 mutation argument
			int64(r.Intn(2)),                            // 3 receive path: 0 submission, 1 in-block
			int64(r.Intn(1000)),                         // 4 payload selector
			int64(r.Range(-txnTolerance, txnTolerance)), // 5 receive-clock skew (s)
			int64(r.Intn(3)),                            // 6 other-actor selector
		}}
	}
	for _, i := range r.Perm(len(fields)) {
		p.Steps = append(p.Steps, mk("tamper", fields[i].Path))
	}
	extra := r.Range(6, 20)
	named := make([]string, 0, len(c30Named))
	for n := range c30Named {
		named = append(named, n)
	}
	sort.Strings(named)
	for i := 0; i < extra; i++ {
		switch r.Pick([]int{3, 5, 3, 1}) {
		case 0:
			p.Steps = append(p.Steps, mk("honest", ""))
		case 1:
			p.Steps = append(p.Steps, mk("tamper", named[r.Intn(len(named))]))
		case 2:
			p.Steps = append(p.Steps, mk("forge", []string{"resign-other-key", "spoof-sender", "foreign-signature", "strip-key"}[r.Intn(4)]))
		default:
			p.Steps = append(p.Steps, mk("kind", fields[r.Intn(len(fields))].Path))
		}
	}
	r.Shuffle(len(p.Steps), func(i, j int) { p.Steps[i], p.Steps[j] = p.Steps[j], p.Steps[i] })
	// histories in one process: the genuine transaction and tampered copies of it (an effect-relevant field changed,
	// hash recomputed or not, the original signature attached) are offered one after the other, in seeded order and
	// through seeded entry points.  Drawn after the shuffle: the steps above keep their arguments.
	for i, n := 0, r.Range(2, 4); i < n; i++ {
		st := mk("history", c30Effect[r.Intn(len(c30Effect))])
		for k, m := 0, r.Range(2, 5); k < m; k++ {
			variant := r.Pick([]int{2, 3, 1}) // genuine, tampered + hash recomputed, tampered
			if k == 0 && r.Intn(4) != 0 {
				variant = 0
			}
			st.I = append(st.I, int64(variant+3*r.Intn(3))) // 7.. variant + 3*entry point
		}
		at := r.Intn(len(p.Steps) + 1)
		p.Steps = append(p.Steps[:at], append([]sim.Step{st}, p.Steps[at:]...)...)
	}
	return p
}

// fields a "history" step alters: what the transaction does or costs
var c30Effect = []string{"CreationDate", "Nonce", "ToClientID", "Value", "TransactionData", "Fee", "Value", "ToClientID"}

// buildTxn: the honest sender. Real Provider + real Sign.
func buildTxn(cl *simClient, to string, shape int, sel int64, now common.Timestamp, executed bool) *transaction.Transaction {
	t := transaction.Provider().(*transaction.Transaction)
	t.ClientID, t.PublicKey, t.ToClientID = cl.id, cl.pk, to
	t.CreationDate = now
	t.ChainID = datastore.ToKey(config.GetServerChainID())
	vals := []currency.Coin{0, 1, 2, 10_000_000_000, 1 << 62, 1<<63 - 1, 1 << 63, 1<<64 - 2}
	t.Value = vals[int(sel)%len(vals)]
	t.Fee = vals[int(sel/8)%len(vals)]
	t.Nonce = 1 + sel%7
	switch shape {
	case 0: // plain send
		t.TransactionType = transaction.TxnTypeSend
	case 1: // send carrying a note that happens to be well-formed contract JSON
		t.TransactionType = transaction.TxnTypeSend
		t.TransactionData = fmt.Sprintf(`{"name":"pour","input":{"note":%d}}`, sel)
	case 2: // data
		t.TransactionType = transaction.TxnTypeData
		t.TransactionData = fmt.Sprintf("memo-%d", sel)
	case 3: // data that is well-formed contract JSON
		t.TransactionType = transaction.TxnTypeData
		t.TransactionData = fmt.Sprintf(`{"name":"refill","input":{"k":%d}}`, sel)
	default: // smart contract call
		t.TransactionType = transaction.TxnTypeSmartContract
		t.TransactionData = fmt.Sprintf(`{"name":"%s","input":{"amount":%d,"id":"a%d"}}`,
			[]string{"pour", "new_allocation_request", "stake_pool_lock", "vote"}[sel%4], sel, sel%13)
	}
	if _, err := t.Sign(cl.ss); err != nil {
		panic(err)
	}
	if executed {
		// what the block generator adds after execution
		t.TransactionOutput = fmt.Sprintf(`{"ok":%d}`, sel)
		t.OutputHash = t.ComputeOutputHash()
		t.Status = transaction.TxnSuccess
	}
	return t
}

// errCode reduces an error to a stable class (no hashes, no addresses).
func errCode(err error) string {
	if err == nil {
		return "ok"
	}
	if ce, ok := err.(*common.Error); ok && ce.Code != "" {
		return ce.Code
	}
	s := err.Error()
	for i := 0; i < len(s); i++ {
		if s[i] == ':' || s[i] >= '0' && s[i] <= '9' {
			s = s[:i]
			break
		}
	}
	if len(s) > 40 {
		s = s[:40]
	}
	return s
}

// receiveTxn is the receiving node. path 0: submission (what the
// /v1/transaction/put handler chain does before it looks at the ledger);
// path 1: the transaction arrives inside a block and goes through the shipped
// miner.ValidateTransactions.
func receiveTxn(wire []byte, path int, now common.Timestamp, rc *receiver) (got *transaction.Transaction, stage string, err error) {
	ctx := context.Background()
	if path == 0 {
		e := transaction.Provider().(*transaction.Transaction)
		if err := json.Unmarshal(wire, e); err != nil {
			return nil, "decode", err
		}
		if err := e.ComputeProperties(); err != nil {
			return nil, "properties", err
		}
		// Transaction.Validate = this check + ValidateWrtTime(ctx, common.Now())
		if !encryption.IsHash(e.ToClientID) {
			return nil, "validate", common.NewError("invalid_to_client_id", "invalid to client id")
		}
		if err := e.ValidateWrtTime(ctx, now); err != nil {
			return nil, "validate", err
		}
		return e, "accepted", nil
	}
	b := block.Provider().(*block.Block)
	if err := json.Unmarshal([]byte(`{"transactions":[`+string(wire)+`]}`), b); err != nil {
		return nil, "decode", err
	}
	b.CreationDate = now
	b.Round = 1
	if err := b.ComputeProperties(); err != nil {
		return nil, "properties", err
	}
	if err := rc.mc.ValidateTransactions(ctx, b); err != nil {
		return nil, "validate", err
	}
	if len(b.Txns) != 1 {
		return nil, "decode", common.NewError("txn_count", "block wrapper lost the transaction")
	}
	return b.Txns[0], "accepted", nil
}

// sameField reports whether the named field of the entity the receiver accepted
// equals the one the sender signed (the receiver re-derives some wire fields:
// an emptied ClientID is recomputed from the public key, for instance).
func sameField(a, b any, field string) bool {
	fa, ok1 := fieldByPath(reflect.ValueOf(a), field)
	fb, ok2 := fieldByPath(reflect.ValueOf(b), field)
	return ok1 && ok2 && reflect.DeepEqual(fa.Interface(), fb.Interface())
}

func execC30(env *sim.Env, p *sim.Plan) *sim.Result {
	tr := sim.NewTrace()
	tr.Keep = keepLog(env)
	scheme := schemes[int(p.CfgInt("scheme", 0))%2]
	rc := newReceiverFor(scheme, int(p.CfgInt("batch", 64)))
	keys := sim.NewRNG(p.Seed).Child("keys")
	nc := int(p.CfgInt("clients", 3))
	if nc < 2 {
		nc = 2
	}
	cls := make([]*simClient, nc)
	for i := range cls {
		cls[i] = newSimClient(scheme, keys.Child(fmt.Sprintf("c%d", i)))
	}
	known := map[string]bool{}
	for _, f := range txnWireFields() {
		known[f.Path] = true
	}
	viol := func(oracle, sig, detail string) {
		tr.Violate(&sim.Violation{Prop: "C30", Oracle: oracle, Sig: "C30/" + sig, Detail: detail})
	}
	base := common.Timestamp(1_700_000_000 + int64(p.Seed%1000)*86400)
	for _, st := range p.Steps {
		a := st.A % nc
		o := (a + 1 + int(st.Int(6, 0))%(nc-1)) % nc // another client, != a
		shape := int(st.Int(0, 0)) % c30Shapes
		path := int(st.Int(3, 0)) % 2
		now := base + common.Timestamp(st.Int(4, 0)*7) // a function of the step alone: shrinking must not move it
		recvNow := now + common.Timestamp(st.Int(5, 0))
		t := buildTxn(cls[a], cls[o].id, shape, st.Int(4, 0), now, path == 1)
		wire, err := json.Marshal(t)
		if err != nil {
			panic(err)
		}
		field := st.Str(0, "")
		tampered := false
		expectReject := false
		label := st.Op
		switch st.Op {
		case "honest":
		case "history":
			if _, named := c30Named[field]; !named {
				tr.Outcome("skip/unknown-field")
				continue
			}
			// one signed transaction; the in-block wire form additionally carries what the generator adds after execution
			t := buildTxn(cls[a], cls[o].id, shape, st.Int(4, 0)+5000, now, false)
			var w transaction.Transaction
			wire0, _ := json.Marshal(t)
			if err := json.Unmarshal(wire0, &w); err != nil {
				panic(err)
			}
			f, _ := fieldByPath(reflect.ValueOf(&w), field)
			alt := ""
			switch field {
			case "ToClientID":
				alt = cls[(o+1)%nc].id
				if alt == w.ToClientID || alt == w.ClientID {
					alt = encryption.Hash("somebody else")
				}
			case "TransactionData":
				alt = buildTxn(cls[a], cls[o].id, (shape+1+int(st.Int(2, 0))%(c30Shapes-1))%c30Shapes, st.Int(4, 0)+1, now, false).TransactionData
			}
			kind := int(st.Int(1, 0)) % mutKinds
			if !mutateLeaf(f, kind, st.Int(2, 0), alt) {
				tr.Outcome("skip/no-effect")
				continue
			}
			w.Signature = t.Signature        // the original signature stays attached
			wirePlain, _ := json.Marshal(&w) // hash left as signed
			w.Hash = w.ComputeHash()
			wireRehashed, _ := json.Marshal(&w)
			seenGenuine := false
			for k := 7; k < len(st.I); k++ {
				variant, entry := int(st.I[k])%3, int(st.I[k]/3)%3
				var x transaction.Transaction
				from, what := wire0, "genuine"
				switch variant {
				case 1:
					from, what = wireRehashed, "tampered+rehash"
				case 2:
					from, what = wirePlain, "tampered"
				}
				if err := json.Unmarshal(from, &x); err != nil {
					panic(err)
				}
				if entry == 1 { // in-block
					x.TransactionOutput = fmt.Sprintf(`{"ok":%d}`, st.Int(4, 0))
					x.OutputHash = x.ComputeOutputHash()
					x.Status = transaction.TxnSuccess
				}
				wire, err := json.Marshal(&x)
				if err != nil {
					panic(err)
				}
				var got *transaction.Transaction
				var stage string
				var rerr error
				entryName := []string{"submit", "block", "verify"}[entry]
				switch entry {
				case 0, 1:
					got, stage, rerr = receiveTxn(wire, entry, recvNow, rc)
				default:
					// the two verification calls on their own, as any other caller of the entity would use them
					e := transaction.Provider().(*transaction.Transaction)
					stage = "verify"
					if rerr = json.Unmarshal(wire, e); rerr == nil {
						if rerr = e.ComputeProperties(); rerr == nil {
							if rerr = e.VerifyHash(context.Background()); rerr == nil {
								rerr = e.VerifySignature(context.Background())
							}
						}
					}
					if rerr == nil {
						got, stage = e, "accepted"
					}
				}
				accepted := rerr == nil
				if variant != 0 {
					tr.Fault("history_" + what)
					if seenGenuine {
						tr.Fault("history_tampered_after_genuine")
					}
				}
				if accepted && variant != 0 && sameField(got, t, field) {
					tr.Probe("tamper-normalised/" + field)
					tr.Outcome("history/normalised")
					continue
				}
				tr.Event("history %s %s/m%d via %s after-genuine=%v shape=%d scheme=%s -> %s/%s", what, field, kind, entryName, seenGenuine, shape, scheme, stage, errCode(rerr))
				tr.Outcome(fmt.Sprintf("history/%s/%s/%v/%v", what, entryName, seenGenuine, accepted))
				switch {
				case variant == 0 && !accepted:
					viol("honest-delivery", "honest/rejected", fmt.Sprintf("untampered transaction rejected via %s (delivery %d of a history), scheme %s: %s: %v", entryName, k-6, scheme, stage, rerr))
				case variant != 0 && accepted:
					viol("tamper", "tamper/"+field+"/accepted",
						fmt.Sprintf("transaction with altered %s (%s of the statement; mutation m%d; hash %s; original signature) accepted via %s, scheme %s, shape %d; the genuine transaction had %sbeen validated by this process before",
							field, c30Named[field], kind, map[int]string{1: "recomputed", 2: "as signed"}[variant], entryName, scheme, shape, map[bool]string{true: "", false: "not "}[seenGenuine]))
				}
				if variant == 0 && accepted {
					seenGenuine = true
				}
			}
			continue
		case "tamper", "kind":
			if !known[field] {
				tr.Outcome("skip/unknown-field")
				continue
			}
			var w transaction.Transaction
			if err := json.Unmarshal(wire, &w); err != nil {
				panic(err)
			}
			f, ok := fieldByPath(reflect.ValueOf(&w), field)
			if !ok {
				tr.Outcome("skip/unknown-field")
				continue
			}
			if st.Op == "kind" {
				// switch the JSON kind of the field on the wire (number <-> string)
				var m map[string]json.RawMessage
				if err := json.Unmarshal(wire, &m); err != nil {
					panic(err)
				}
				name := jsonName(reflect.TypeOf(&w), field)
				raw, ok := m[name]
				if !ok || len(raw) == 0 {
					tr.Outcome("skip/omitted-on-wire")
					continue
				}
				if raw[0] == '"' {
					m[name] = json.RawMessage("12345")
				} else {
					m[name] = json.RawMessage(`"` + string(raw) + `"`)
				}
				wire, _ = json.Marshal(m)
				tampered = true
				label = "kind/" + field
				tr.Fault("tamper_wire_kind")
			} else {
				alt := ""
				switch field {
				case "ClientID", "ToClientID":
					alt = cls[(o+1)%nc].id
					if alt == f.String() {
						alt = cls[o].id
					}
					if field == "ToClientID" && alt == w.ClientID {
						alt = encryption.Hash("somebody else")
					}
				case "PublicKey":
					alt = cls[o].pk
				case "Hash", "OutputHash":
					alt = encryption.Hash(fmt.Sprintf("other-%d", st.Int(2, 0)))
				case "Signature":
					if s, err := cls[a].ss.Sign(encryption.Hash("another message")); err == nil {
						alt = s
					}
				case "TransactionData":
					alt = buildTxn(cls[a], cls[o].id, (shape+1+int(st.Int(2, 0))%(c30Shapes-1))%c30Shapes, st.Int(4, 0)+1, now, false).TransactionData
				}
				kind := int(st.Int(1, 0)) % mutKinds
				if field == "TransactionType" {
					// "type switched": move among the real transaction types
					types := []int{transaction.TxnTypeSend, transaction.TxnTypeData, transaction.TxnTypeSmartContract, transaction.TxnTypeLockIn}
					nt := types[(indexOf(types, w.TransactionType)+1+kind)%len(types)]
					if nt == w.TransactionType {
						nt = types[(indexOf(types, nt)+1)%len(types)]
					}
					w.TransactionType = nt
					tampered = true
				} else {
					tampered = mutateLeaf(f, kind, st.Int(2, 0), alt)
				}
				if !tampered {
					tr.Outcome("skip/no-effect")
					continue
				}
				wire, err = json.Marshal(&w)
				if err != nil {
					panic(err)
				}
				label = fmt.Sprintf("tamper/%s/m%d", field, kind)
				tr.Fault("tamper_" + field)
			}
			_, expectReject = c30Named[field]
		case "forge":
			var w transaction.Transaction
			if err := json.Unmarshal(wire, &w); err != nil {
				panic(err)
			}
			att := cls[o]
			switch field {
			case "resign-other-key":
				// attacker signs the victim's hash with its own key and ships its own public key
				w.Signature, _ = att.ss.Sign(w.Hash)
				w.PublicKey = att.pk
			case "spoof-sender":
				// attacker builds its own transaction but claims the victim's identity, consistently hashed
				w.Value++
				w.Hash = w.ComputeHash()
				w.Signature, _ = att.ss.Sign(w.Hash)
			case "foreign-signature":
				// a valid signature of the victim, but over another transaction of the victim
				t2 := buildTxn(cls[a], cls[o].id, shape, st.Int(4, 0)+1, now, path == 1)
				w.Signature = t2.Signature
			case "strip-key":
				// no public key on the wire: the receiver cannot tie the id to a key
				w.PublicKey = ""
			default:
				tr.Outcome("skip/unknown-forge")
				continue
			}
			wire, _ = json.Marshal(&w)
			tampered, expectReject = true, true
			label = "forge/" + field
			tr.Fault("forge_" + field)
		default:
			tr.Outcome("skip/unknown-op")
			continue
		}
		got, stage, rerr := receiveTxn(wire, path, recvNow, rc)
		accepted := rerr == nil
		if accepted && tampered && (st.Op == "tamper" || st.Op == "kind") && sameField(got, t, field) {
			// the receiver executes with exactly the signed value: the wire mutation was normalised away
			tr.Event("%s normalised by the receiver", label)
			tr.Probe("tamper-normalised/" + field)
			tr.Outcome("tamper/normalised")
			continue
		}
		pathName := []string{"submit", "block"}[path]
		tr.Event("%s shape=%d path=%s scheme=%s skew=%d -> %s/%s", label, shape, pathName, scheme, st.Int(5, 0), stage, errCode(rerr))
		tr.Outcome(fmt.Sprintf("%s/%s/%v", st.Op, pathName, accepted))
		switch {
		case !tampered && !accepted:
			viol("honest-delivery", "honest/rejected", fmt.Sprintf("untampered transaction rejected on %s path, scheme %s: %s: %v", pathName, scheme, stage, rerr))
		case tampered && st.Op == "forge" && accepted:
			viol("forgery", "forge/"+field+"/accepted", fmt.Sprintf("forged transaction (%s) accepted on %s path, scheme %s", field, pathName, scheme))
		case tampered && accepted && expectReject:
			viol("tamper", "tamper/"+field+"/accepted",
				fmt.Sprintf("transaction with tampered %s (%s of the statement; mutation %s) accepted on %s path, scheme %s, shape %d", field, c30Named[field], label, pathName, scheme, shape))
		case tampered && accepted:
			tr.Probe("unnamed-field-tamper-accepted/" + field)
		case tampered && !accepted && !expectReject:
			tr.Probe("unnamed-field-tamper-rejected/" + field)
		}
	}
	return finish(tr, p.Seed)
}

func indexOf(xs []int, x int) int {
	for i, v := range xs {
		if v == x {
			return i
		}
	}
	return 0
}

// jsonName returns the JSON object key of a (possibly promoted) field.
func jsonName(t reflect.Type, path string) string {
	for t.Kind() == reflect.Pointer {
		t = t.Elem()
	}
	f, ok := t.FieldByName(path)
	if !ok {
		return path
	}
	tag := f.Tag.Get("json")
	for i := 0; i < len(tag); i++ {
		if tag[i] == ',' {
			tag = tag[:i]
			break
		}
	}
	if tag == "" {
		return f.Name
	}
	return tag
}
