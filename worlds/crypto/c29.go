package crypto

import (
	"context"
	"encoding/json"
	"fmt"
	"reflect"
	"sort"
	"strings"

	"0chain.net/chaincore/block"
	"0chain.net/chaincore/node"
	"0chain.net/chaincore/threshold/bls"
	"0chain.net/chaincore/transaction"
	"0chain.net/core/common"
	"0chain.net/core/config"
	"0chain.net/core/datastore"
	"0chain.net/core/encryption"

	"verif/sim"
	"verif/worlds/wkit"
)

// Block fields the statement of C29 names (generator, parent, round, random
// seed, transactions, their outputs, resulting state, magic block) plus hash,
// signature and creation date (Appendix B). "Txns" covers the list operations,
// "Txn.<F>" a field of one contained transaction, "MagicBlock.<F>" any field of
// the carried magic block (all of them: the statement says "magic block").
var c29Named = map[string]string{
	"MinerID": "generator", "PrevHash": "parent", "Round": "round", "RoundRandomSeed": "random seed",
	"ClientStateHash": "resulting state", "StateChangesCount": "resulting state",
	"Hash": "hash", "Signature": "generator signature", "CreationDate": "creation date",
	"Txns": "transactions", "MagicBlock": "magic block",
}

// fields of a contained transaction whose alteration must be rejected: its
// outputs (statement) and everything C30 names (altering a transaction)
var c29TxnNamed = map[string]string{
	"TransactionOutput": "outputs", "OutputHash": "outputs", "Status": "outputs",
}

func init() {
	for k, v := range c30Named {
		c29TxnNamed[k] = "transactions (" + v + ")"
	}
}

func c29IsNamed(field string) (string, bool) {
	if strings.HasPrefix(field, "MagicBlock") {
		return "magic block", true
	}
	if strings.HasPrefix(field, "Txns.") {
		return "transactions", true
	}
	if strings.HasPrefix(field, "Txn.") {
		w, ok := c29TxnNamed[field[4:]]
		return w, ok
	}
	w, ok := c29Named[field]
	return w, ok
}

func blockWireFields() []wireField {
	fs := wireLeaves(reflect.TypeOf((*block.Block)(nil)), "", func(p string) bool { return p == "MagicBlock" })
	have := map[string]bool{}
	for _, f := range fs {
		have[f.Path] = true
	}
	for n := range c29Named {
		if n == "MagicBlock" {
			continue
		}
		if !have[n] {
			panic("C29: field " + n + " named by the property is not a wire field of block.Block any more")
		}
	}
	hasMB := false
	for _, f := range fs {
		if strings.HasPrefix(f.Path, "MagicBlock.") {
			hasMB = true
		}
	}
	if !hasMB {
		panic("C29: block.Block carries no MagicBlock any more")
	}
	return fs
}

func init() {
	sim.Register(&sim.Check{
		ID: "C29", Title: "Block hashes commit to block contents", World: "crypto",
		Gen: genC29, Exec: execC29,
		Quick:    sim.Budget{Runs: 640, WallS: 60},
		Thorough: sim.Budget{Runs: 12000, WallS: 840},
		LevelText: "seeded search: sim-owned generators (real node identities, both signature schemes) assemble real block.Block values from really signed transactions with outputs, " +
			"optionally carrying a magic block built from real DKG material, hash and sign them with the shipped code; a simulated byzantine link applies one tamper per delivery " +
			"(every JSON-visible field of Block and of its MagicBlock found by reflection, every field of a contained transaction, add/drop/reorder/duplicate/replace of transactions, attach/detach of the magic block); " +
			"the receiver runs the shipped JSON decode, Block.ComputeProperties, Block.Validate and miner.ValidateTransactions; " +
			"plus the same tampers (weighted towards same-count replacement / reordering of transactions and transaction fields) applied in place to a block object that was already hashed (ComputeHash / Validate / HashBlock / full receive), the same object hashed and validated again: hash and verdict must equal those of a freshly decoded block with the same contents. A clean batch is evidence, not proof",
		LevelNote: "input-class property hosted in the simulation: schedules contribute nothing. The receiver is the hash/signature/duplicate/transaction part of miner.VerifyBlock; " +
			"the later stages of VerifyBlock (previous block lookup, cost, ComputeState re-execution, VerifyBlockMagicBlock byte-compare against the miner's own DKG result) need a full node with ledger state and are not run here, " +
			"so fields that only those stages protect (ClientStateHash, transaction Status, magic-block content) show up as acceptance at the hash level - which is what the statement is about",
		Technique: "deterministic simulation: seeded byzantine tamper fault on a simulated link, per struct field by reflection plus crafted list/magic-block operations; receiver = real block/transaction/node/miner code",
		DesignRef: "6/C29, Appendix B", Regime: "single-threaded event loop (ValidateTransactions' inner worker goroutines run to completion inside one step)",
		Components: sim.Components{
			Real: []string{"chaincore/block (NewBlock, HashBlock/ComputeHash, Merkle trees, ComputeProperties, Validate, MagicBlock.GetHash, Mpks, ShareOrSigns)",
				"chaincore/transaction (Sign, ComputeOutputHash, ValidateWrtTimeForBlock)", "chaincore/node (registry, Pool, Node.Verify)", "chaincore/threshold/bls (DKG material of the magic block)",
				"core/encryption", "miner.Chain.ValidateTransactions", "chaincore/chain (Chain, ConfigImpl)"},
			Sim:  []string{"generators, clients with seeded keys", "block assembly order (no execution: outputs and state hash are seeded values)", "tampering link"},
			Stub: []string{"datastore.Store (no-op)", "ledger state / execution (not part of the hash property)"},
		},
		Assumptions: []string{
			"a delivery counts as tampered only when the field differs from what was signed, on the wire and in the entity the receiver ends up with",
			"accepted = no error from decode, ComputeProperties, Validate, ValidateTransactions",
			"acceptances listed in known_findings.d/crypto.json were demonstrated against the shipped code by this check; every other named field must be rejected",
		},
	})
}

func genC29(seed uint64, tier string) *sim.Plan {
	r := sim.NewRNG(seed).Child("plan")
	sw := sim.NewRNG(seed).Child("swarm")
	tam := sim.NewRNG(seed).Child("tamper")
	p := &sim.Plan{Cfg: map[string]int64{
		"scheme":  int64(sw.Intn(2)),
		"miners":  int64(sw.Range(2, 5)),
		"clients": int64(sw.Range(2, 4)),
		"batch":   int64([]int{1, 2, 3, 64}[sw.Intn(4)]),
		"dkg_t":   int64(sw.Range(1, 3)),
	}}
	mk := func(op, field string, mb int) sim.Step {
		return sim.Step{Op: op, A: r.Intn(8), S: []string{field}, I: []int64{
			int64(r.Intn(4)),          // 0 block shape (number of transactions class)
			int64(tam.Intn(mutKinds)), // 1 mutation kind
			int64(tam.Intn(1 << 20)),  // 2 mutation argument
			int64(mb),                 // 3 block carries a magic block
			int64(r.Intn(1000)),       // 4 payload selector
			int64(tam.Intn(64)),       // 5 element index (transaction, node, ticket ...)
		}}
	}
	var steps []sim.Step
	for _, f := range blockWireFields() {
		mb := 0
		if strings.HasPrefix(f.Path, "MagicBlock.") || r.Intn(4) == 0 {
			mb = 1
		}
		steps = append(steps, mk("tamper", f.Path, mb))
		if strings.HasPrefix(f.Path, "MagicBlock.") && f.Path != "MagicBlock.Hash" {
			// a consistent relay: alters the field and recomputes the carried magic-block hash
			steps = append(steps, mk("tamper", f.Path+"+rehash", 1))
		}
	}
	for _, f := range txnWireFields() {
		steps = append(steps, mk("tamper", "Txn."+f.Path, r.Intn(4)/3))
	}
	for _, op := range []string{"add", "drop", "reorder", "duplicate", "replace"} {
		steps = append(steps, mk("tamper", "Txns."+op, r.Intn(4)/3))
	}
	steps = append(steps, mk("tamper", "MagicBlock", 0), mk("tamper", "MagicBlock", 1))
	named := []string{"MinerID", "PrevHash", "Round", "RoundRandomSeed", "ClientStateHash", "StateChangesCount", "Hash", "Signature", "CreationDate",
		"Txns.duplicate", "Txns.add", "Txns.drop", "Txns.reorder", "Txns.replace", "Txn.TransactionOutput", "Txn.OutputHash", "Txn.Status"}
	for i, n := 0, r.Range(4, 12); i < n; i++ {
		switch r.Pick([]int{3, 5, 2}) {
		case 0:
			steps = append(steps, mk("honest", "", r.Intn(2)))
		case 1:
			steps = append(steps, mk("tamper", named[r.Intn(len(named))], r.Intn(4)/3))
		default:
			steps = append(steps, mk("forge", []string{"resign-other-miner", "foreign-signature", "rehash-magic-block"}[r.Intn(3)], 1))
		}
	}
	r.Shuffle(len(steps), func(i, j int) { steps[i], steps[j] = steps[j], steps[i] })
	// tampers applied to a block OBJECT that was already hashed (HashBlock / ComputeHash / Validate / full receive),
	// the same object hashed and validated again afterwards.  Drawn after the shuffle: the steps above keep their arguments.
	var tfs []string
	for _, f := range txnWireFields() {
		tfs = append(tfs, "Txn."+f.Path)
	}
	var bfs []string
	for _, f := range blockWireFields() {
		bfs = append(bfs, f.Path)
	}
	for i, n := 0, r.Range(5, 10); i < n; i++ {
		var f string
		switch r.Pick([]int{5, 3, 3, 1}) {
		case 0:
			f = "Txns." + []string{"replace", "reorder", "replace", "reorder", "add", "drop", "duplicate"}[r.Intn(7)]
		case 1:
			f = tfs[r.Intn(len(tfs))]
		case 2:
			f = bfs[r.Intn(len(bfs))]
		default:
			f = "MagicBlock"
		}
		mb := r.Intn(4) / 3
		if strings.HasPrefix(f, "MagicBlock.") {
			mb = 1
		}
		st := mk("rehash", f, mb)
		st.I = append(st.I, int64(r.Intn(4))) // 6 how the object was hashed before
		at := r.Intn(len(steps) + 1)
		steps = append(steps[:at], append([]sim.Step{st}, steps[at:]...)...)
	}
	p.Steps = steps
	return p
}

// c29World is the sending side of one run.
type c29World struct {
	scheme  string
	miners  []*simMiner
	shards  []*simMiner
	clients []*simClient
	now     common.Timestamp
	dkgT    int
	keys    *sim.RNG
	mb      *block.MagicBlock
	salt    uint64
	cache   map[string][]byte // honest wire bytes by block shape
	orig    map[string]*block.Block
}

func newC29World(p *sim.Plan, scheme string) *c29World {
	keys := sim.NewRNG(p.Seed).Child("keys")
	w := &c29World{scheme: scheme, keys: keys, salt: sim.NewRNG(p.Seed).Child("salt").Uint64(), cache: map[string][]byte{}, orig: map[string]*block.Block{},
		now: common.Timestamp(1_700_000_000 + int64(p.Seed%1000)*86400), dkgT: int(p.CfgInt("dkg_t", 2))}
	nm := int(p.CfgInt("miners", 3))
	if nm < 2 {
		nm = 2
	}
	for i := 0; i < nm; i++ {
		m := newSimMiner(scheme, keys.Child(fmt.Sprintf("m%d", i)), i)
		node.RegisterNode(m.node)
		w.miners = append(w.miners, m)
	}
	for i := 0; i < 2; i++ {
		s := newSimMiner(scheme, keys.Child(fmt.Sprintf("s%d", i)), 100+i)
		s.node.Type = node.NodeTypeSharder
		w.shards = append(w.shards, s)
	}
	nc := int(p.CfgInt("clients", 3))
	if nc < 2 {
		nc = 2
	}
	for i := 0; i < nc; i++ {
		w.clients = append(w.clients, newSimClient(scheme, keys.Child(fmt.Sprintf("c%d", i))))
	}
	return w
}

// magicBlock builds (once per run) a magic block the way the miner smart
// contract's createMagicBlock leaves it: pools, Mpks and shares from real DKG
// instances, hash = GetHash().
func (w *c29World) magicBlock() *block.MagicBlock {
	if w.mb != nil {
		return w.mb
	}
	mb := block.NewMagicBlock()
	mb.MagicBlockNumber = 2
	mb.PreviousMagicBlockHash = encryption.Hash("previous magic block")
	mb.StartingRound = 100
	mb.Miners = node.NewPool(node.NodeTypeMiner)
	mb.Sharders = node.NewPool(node.NodeTypeSharder)
	for _, m := range w.miners {
		if err := mb.Miners.AddNode(m.node); err != nil {
			panic(err)
		}
	}
	for _, s := range w.shards {
		if err := mb.Sharders.AddNode(s.node); err != nil {
			panic(err)
		}
	}
	n := len(w.miners)
	t := w.dkgT
	if t > n {
		t = n
	}
	mb.T, mb.N, mb.K = t, n, n
	wkit.SeedBLS(w.keys.Child("dkg"))
	dkgs := make([]*bls.DKG, n)
	for i, m := range w.miners {
		dkgs[i] = bls.MakeDKG(t, n, m.node.GetKey())
		mpk := &block.MPK{ID: m.node.GetKey()}
		for _, pk := range dkgs[i].GetMPKs() {
			mpk.Mpk = append(mpk.Mpk, pk.GetHexString())
		}
		mb.Mpks.Mpks[m.node.GetKey()] = mpk
	}
	for i, m := range w.miners {
		sos := block.NewShareOrSigns()
		sos.ID = m.node.GetKey()
		for j, o := range w.miners {
			if i == j {
				continue
			}
			sh, err := dkgs[i].ComputeDKGKeyShare(bls.ComputeIDdkg(o.node.GetKey()))
			if err != nil {
				panic(err)
			}
			ks := &bls.DKGKeyShare{}
			ks.ID = o.node.GetKey()
			if (i+j)%2 == 0 {
				ks.Share = sh.GetHexString()
			} else {
				ks.Message = encryption.Hash(sh.GetHexString())
				ks.Sign, _ = o.ss.Sign(ks.Message)
			}
			sos.ShareOrSigns[o.node.GetKey()] = ks
		}
		mb.ShareOrSigns.Shares[m.node.GetKey()] = sos
	}
	mb.Hash = mb.GetHash()
	w.mb = mb
	return mb
}

// honestBlock returns the wire form (JSON) of an honestly generated, hashed and
// signed block of the given shape and the sender's own copy of it.
func (w *c29World) honestBlock(shape int, withMB bool, gen int, sel int64) ([]byte, *block.Block) {
	key := fmt.Sprintf("%d/%v/%d/%d", shape, withMB, gen%len(w.miners), sel%4)
	if wire, ok := w.cache[key]; ok {
		return wire, w.orig[key]
	}
	m := w.miners[gen%len(w.miners)]
	// everything below is a function of the cache key and the run's seed only
	sel = sel%4 + int64(w.salt%997)*4
	round := int64(100 + sel%50)
	b := block.NewBlock(datastore.ToKey(config.GetServerChainID()), round)
	b.MinerID = m.node.GetKey()
	b.PrevHash = encryption.Hash(fmt.Sprintf("block of round %d", round-1))
	b.CreationDate = w.now + common.Timestamp(sel%20)
	b.RoundRandomSeed = int64(sim.Hash64("rrs", fmt.Sprint(sel))>>1) - int64(sel%2)*(1<<62)
	b.RoundTimeoutCount = int(sel % 3)
	b.LatestFinalizedMagicBlockHash = encryption.Hash("previous magic block")
	b.LatestFinalizedMagicBlockRound = 1
	b.ClientStateHash = w.keys.Child(fmt.Sprintf("state-%s", key)).Bytes(32)
	b.StateChangesCount = int(3 + sel%17)
	b.RunningTxnCount = 1000 + sel
	for _, v := range w.miners {
		sig, _ := v.ss.Sign(b.PrevHash)
		b.PrevBlockVerificationTickets = append(b.PrevBlockVerificationTickets, &block.VerificationTicket{VerifierID: v.node.GetKey(), Signature: sig})
	}
	nt := []int{1, 2, 4, 7}[shape%4]
	for i := 0; i < nt; i++ {
		cl := w.clients[(i+int(sel))%len(w.clients)]
		to := w.clients[(i+int(sel)+1)%len(w.clients)]
		t := buildTxn(cl, to.id, (i+int(sel))%c30Shapes, sel*10+int64(i), b.CreationDate-common.Timestamp(i%5), true)
		b.AddTransaction(t) // real: sets OutputHash
		if i%3 == 2 {
			t.Status = transaction.TxnError
		}
		b.Txns = append(b.Txns, t)
	}
	if withMB {
		b.MagicBlock = w.magicBlock().Clone()
		b.MagicBlock.StartingRound = round
		b.MagicBlock.Hash = b.MagicBlock.GetHash()
	}
	// the generator's last two actions (miner.hashAndSignGeneratedBlock)
	b.HashBlock()
	sig, err := m.ss.Sign(b.Hash)
	if err != nil {
		panic(err)
	}
	b.Signature = sig
	wire, err := json.Marshal(b)
	if err != nil {
		panic(err)
	}
	w.cache[key], w.orig[key] = wire, b
	return wire, b
}

// receiveBlock is the receiving node: what miner.VerifyBlock does up to and
// including ValidateTransactions, on a block that arrived as JSON.
func receiveBlock(wire []byte, rc *receiver) (*block.Block, string, error) {
	ctx := context.Background()
	b := block.Provider().(*block.Block)
	if err := json.Unmarshal(wire, b); err != nil {
		return nil, "decode", err
	}
	if err := b.ComputeProperties(); err != nil {
		return nil, "properties", err
	}
	if err := b.Validate(ctx); err != nil {
		return nil, "validate", err
	}
	if err := rc.mc.ValidateTransactions(ctx, b); err != nil {
		return nil, "transactions", err
	}
	return b, "accepted", nil
}

func jsonOf(v any) string {
	b, _ := json.Marshal(v)
	return string(b)
}

// sameJSON compares a (possibly complex) field of two entities by its wire form.
func sameJSON(a, b any, path string) bool {
	fa, ok1 := fieldByPath(reflect.ValueOf(a), path)
	fb, ok2 := fieldByPath(reflect.ValueOf(b), path)
	if !ok1 || !ok2 {
		return ok1 == ok2
	}
	return jsonOf(fa.Interface()) == jsonOf(fb.Interface())
}

func execC29(env *sim.Env, p *sim.Plan) *sim.Result {
	tr := sim.NewTrace()
	tr.Keep = keepLog(env)
	scheme := schemes[int(p.CfgInt("scheme", 0))%2]
	rc := newReceiverFor(scheme, int(p.CfgInt("batch", 64)))
	w := newC29World(p, scheme)
	bknown := map[string]wireField{}
	for _, f := range blockWireFields() {
		bknown[f.Path] = f
	}
	tknown := map[string]bool{}
	for _, f := range txnWireFields() {
		tknown[f.Path] = true
	}
	viol := func(oracle, sig, detail string) {
		tr.Violate(&sim.Violation{Prop: "C29", Oracle: oracle, Sig: "C29/" + sig, Detail: detail})
	}
	for _, st := range p.Steps {
		shape := int(st.Int(0, 0))
		withMB := st.Int(3, 0) != 0
		wire, orig := w.honestBlock(shape, withMB, st.A, st.Int(4, 0))
		field := st.Str(0, "")
		kind := int(st.Int(1, 0)) % mutKinds
		arg := st.Int(2, 0)
		idx := int(st.Int(5, 0))
		label := st.Op
		tampered := false
		cmpPath := "" // field whose received value is compared with the signed one
		hashMoved := false
		switch st.Op {
		case "honest":
		case "rehash":
			c29Rehash(tr, w, rc, st, wire, orig, bknown, tknown, viol)
			continue
		case "tamper", "forge":
			x := &block.Block{}
			if err := json.Unmarshal(wire, x); err != nil {
				panic(err)
			}
			var ok bool
			if st.Op == "forge" {
				ok = w.forgeBlock(x, field, st.A)
				label = "forge/" + field
			} else {
				ok, cmpPath = w.tamperBlock(x, field, kind, arg, idx, bknown, tknown)
				label = fmt.Sprintf("tamper/%s/m%d", field, kind)
			}
			if !ok {
				tr.Outcome("skip/not-applicable")
				continue
			}
			var err error
			if wire, err = json.Marshal(x); err != nil {
				panic(err)
			}
			tampered = true
			hashMoved = x.ComputeHash() != orig.Hash
			if st.Op == "forge" {
				tr.Fault("forge_" + field)
			} else {
				tr.Fault("tamper_" + field)
			}
		default:
			tr.Outcome("skip/unknown-op")
			continue
		}
		got, stage, rerr := receiveBlock(wire, rc)
		accepted := rerr == nil
		if accepted && tampered && st.Op == "tamper" && cmpPath != "" && sameJSON(got, orig, cmpPath) {
			tr.Event("%s normalised by the receiver", label)
			tr.Probe("tamper-normalised/" + field)
			tr.Outcome("tamper/normalised")
			continue
		}
		tr.Event("%s txns=%d mb=%v scheme=%s hash-moved=%v -> %s/%s", label, len(orig.Txns), withMB, scheme, hashMoved, stage, errCode(rerr))
		tr.Outcome(fmt.Sprintf("%s/%v/%v", st.Op, withMB, accepted))
		what, named := c29IsNamed(field)
		switch {
		case !tampered && !accepted:
			viol("honest-delivery", "honest/rejected", fmt.Sprintf("untampered block rejected (scheme %s, %d txns, magic block %v): %s: %v", scheme, len(orig.Txns), withMB, stage, rerr))
		case st.Op == "forge" && accepted:
			viol("forgery", "forge/"+field+"/accepted", fmt.Sprintf("forged block (%s) accepted, scheme %s", field, scheme))
		case tampered && accepted && named:
			viol("tamper", "tamper/"+field+"/accepted",
				fmt.Sprintf("block with tampered %s (%s of the statement; %s; block hash recomputed over the tampered content %s) accepted by decode+ComputeProperties+Validate+ValidateTransactions, scheme %s, %d txns, magic block %v",
					field, what, label, map[bool]string{true: "differs", false: "is unchanged"}[hashMoved], scheme, len(orig.Txns), withMB))
		case tampered && accepted:
			tr.Probe("unnamed-field-tamper-accepted/" + field)
		case tampered && !named && st.Op == "tamper":
			tr.Probe("unnamed-field-tamper-rejected/" + field)
		}
		if tampered && !accepted && !hashMoved && st.Op == "tamper" {
			// rejected although the block hash does not cover the change: some other check caught it
			tr.Probe("rejected-without-hash-change/" + field)
		}
	}
	return finish(tr, p.Seed)
}

// c29Rehash: the hash is a function of the contents, not of the object's past.  A block object is decoded and
// hashed the way a node does (I[6]), then changed in place (same tampers as on the link, incl. same-count
// replacement / reordering of transactions), then hashed and validated again.  Reference: a freshly decoded
// block with exactly the contents the object has now.
func c29Rehash(tr *sim.Trace, w *c29World, rc *receiver, st sim.Step, wire []byte, orig *block.Block, bknown map[string]wireField, tknown map[string]bool, viol func(oracle, sig, detail string)) {
	ctx := context.Background()
	field := st.Str(0, "")
	group := "Block"
	if i := strings.IndexByte(field, '.'); i > 0 {
		group = field[:i]
	} else if field == "MagicBlock" {
		group = field
	}
	y := block.Provider().(*block.Block)
	if err := json.Unmarshal(wire, y); err != nil {
		panic(err)
	}
	if err := y.ComputeProperties(); err != nil {
		viol("honest-delivery", "honest/rejected", fmt.Sprintf("ComputeProperties of an untampered block: %v", err))
		return
	}
	how := []string{"ComputeHash", "Validate", "HashBlock", "receive"}[int(st.Int(6, 0))%4]
	var herr error
	switch how {
	case "ComputeHash":
		if h := y.ComputeHash(); h != orig.Hash {
			herr = fmt.Errorf("hash %s, generator's %s", h, orig.Hash)
		}
	case "Validate":
		herr = y.Validate(ctx)
	case "HashBlock":
		y.HashBlock()
		if y.Hash != orig.Hash {
			herr = fmt.Errorf("hash %s, generator's %s", y.Hash, orig.Hash)
		}
	default:
		if herr = y.Validate(ctx); herr == nil {
			herr = rc.mc.ValidateTransactions(ctx, y)
		}
	}
	if herr != nil {
		viol("honest-delivery", "honest/rejected", fmt.Sprintf("untampered decoded block does not hash/validate like the generator's (%s): %v", how, herr))
		return
	}
	ok, _ := w.tamperBlock(y, field, int(st.Int(1, 0))%mutKinds, st.Int(2, 0), int(st.Int(5, 0)), bknown, tknown)
	if !ok {
		tr.Outcome("skip/not-applicable")
		return
	}
	tr.Fault("rehash_after_" + group)
	now, err := json.Marshal(y)
	if err != nil {
		panic(err)
	}
	objHash := y.ComputeHash()
	fresh := &block.Block{}
	if err := json.Unmarshal(now, fresh); err != nil {
		tr.Event("rehash %s after %s: contents do not decode", field, how)
		tr.Outcome("rehash/undecodable")
		return
	}
	freshHash := fresh.ComputeHash()
	// verdicts: the object goes through the receiver's stages again; the reference is the plain receive path
	var objErr error
	if objErr = y.ComputeProperties(); objErr == nil {
		if objErr = y.Validate(ctx); objErr == nil {
			objErr = rc.mc.ValidateTransactions(ctx, y)
		}
	}
	_, stage, refErr := receiveBlock(now, rc)
	tr.Event("rehash %s after %s txns=%d hash-moved=%v same-as-fresh=%v object-accepted=%v fresh=%s", field, how, len(orig.Txns), objHash != orig.Hash, objHash == freshHash, objErr == nil, stage)
	tr.Outcome(fmt.Sprintf("rehash/%s/%s/%v/%v", how, group, objHash != orig.Hash, objErr == nil))
	if objHash != freshHash {
		viol("hash-function-of-contents", "rehash/"+group+"/hash-depends-on-history",
			fmt.Sprintf("a block object hashed (%s), then changed (%s), hashes to %s; a freshly decoded block with the same contents hashes to %s (generator's hash %s, %d txns)", how, field, objHash, freshHash, orig.Hash, len(orig.Txns)))
	}
	if (objErr == nil) != (refErr == nil) {
		viol("hash-function-of-contents", "rehash/"+group+"/verdict-depends-on-history",
			fmt.Sprintf("a block object hashed (%s), then changed (%s): validating the object again gives %q, a freshly decoded block with the same contents gives %q (%s)", how, field, errCode(objErr), errCode(refErr), stage))
	}
}

// tamperBlock applies one tamper to the in-transit copy x. It returns whether
// anything changed and the field path to compare after acceptance.
func (w *c29World) tamperBlock(x *block.Block, field string, kind int, arg int64, idx int, bknown map[string]wireField, tknown map[string]bool) (bool, string) {
	switch {
	case strings.HasPrefix(field, "Txns."):
		n := len(x.Txns)
		if n == 0 {
			return false, ""
		}
		switch field[5:] {
		case "duplicate":
			x.Txns = append(x.Txns, x.Txns[idx%n].Clone())
		case "drop":
			i := idx % n
			x.Txns = append(x.Txns[:i:i], x.Txns[i+1:]...)
		case "reorder":
			if n < 2 {
				return false, ""
			}
			i := idx % n
			j := (i + 1 + int(arg)%(n-1)) % n
			x.Txns[i], x.Txns[j] = x.Txns[j], x.Txns[i]
		case "add", "replace":
			cl := w.clients[idx%len(w.clients)]
			t := buildTxn(cl, w.clients[(idx+1)%len(w.clients)].id, int(arg)%c30Shapes, 777+arg%100, x.CreationDate, true)
			if field[5:] == "add" {
				x.Txns = append(x.Txns, t)
			} else {
				x.Txns[idx%n] = t
			}
		default:
			return false, ""
		}
		return true, ""
	case strings.HasPrefix(field, "Txn."):
		tf := field[4:]
		if !tknown[tf] || len(x.Txns) == 0 {
			return false, ""
		}
		i := idx % len(x.Txns)
		t := x.Txns[i]
		f, ok := fieldByPath(reflect.ValueOf(t), tf)
		if !ok {
			return false, ""
		}
		alt := ""
		switch tf {
		case "ClientID", "ToClientID":
			alt = w.clients[(idx+1)%len(w.clients)].id
			if alt == f.String() || (tf == "ToClientID" && alt == t.ClientID) {
				alt = encryption.Hash("somebody else")
			}
		case "PublicKey":
			alt = w.clients[(idx+1)%len(w.clients)].pk
			if alt == t.PublicKey {
				alt = w.clients[(idx+2)%len(w.clients)].pk
			}
		case "Hash", "OutputHash":
			alt = encryption.Hash(fmt.Sprintf("other-%d", arg))
		case "Signature":
			alt = x.Txns[(i+1)%len(x.Txns)].Signature
		}
		if tf == "TransactionType" {
			types := []int{transaction.TxnTypeSend, transaction.TxnTypeData, transaction.TxnTypeSmartContract, transaction.TxnTypeLockIn}
			nt := types[(indexOf(types, t.TransactionType)+1+kind)%len(types)]
			if nt == t.TransactionType {
				nt = types[(indexOf(types, nt)+1)%len(types)]
			}
			t.TransactionType = nt
			return true, fmt.Sprintf("Txns.%d.%s", i, tf)
		}
		return mutateLeaf(f, kind, arg, alt), fmt.Sprintf("Txns.%d.%s", i, tf)
	case field == "MagicBlock":
		if x.MagicBlock != nil {
			x.MagicBlock = nil // detach
		} else {
			x.MagicBlock = w.magicBlock().Clone() // attach
			x.MagicBlock.StartingRound = x.Round
			x.MagicBlock.Hash = x.MagicBlock.GetHash()
		}
		return true, "MagicBlock"
	}
	rehash := strings.HasSuffix(field, "+rehash")
	field = strings.TrimSuffix(field, "+rehash")
	wf, ok := bknown[field]
	if !ok || (rehash && !strings.HasPrefix(field, "MagicBlock.")) {
		return false, ""
	}
	if rehash {
		defer func() {
			if x.MagicBlock != nil {
				x.MagicBlock.Hash = x.MagicBlock.GetHash()
			}
		}()
	}
	if strings.HasPrefix(field, "MagicBlock.") && x.MagicBlock == nil {
		return false, ""
	}
	f, ok := fieldByPath(reflect.ValueOf(x), field)
	if !ok {
		return false, ""
	}
	if wf.Class == "complex" {
		return w.tamperComplex(x, f, field, kind, arg, idx), field
	}
	alt := ""
	switch field {
	case "MinerID":
		alt = w.miners[(idx+1)%len(w.miners)].node.GetKey()
		if alt == x.MinerID {
			alt = w.miners[(idx+2)%len(w.miners)].node.GetKey()
		}
	case "PrevHash", "Hash", "MagicBlock.Hash", "MagicBlock.PreviousMagicBlockHash", "LatestFinalizedMagicBlockHash":
		alt = encryption.Hash(fmt.Sprintf("other-%d", arg))
	case "Signature":
		alt, _ = w.miners[idx%len(w.miners)].ss.Sign(x.PrevHash)
	}
	return mutateLeaf(f, kind, arg, alt), field
}

// tamperComplex: crafted mutations of the structured fields; anything of a type
// this function does not know is zeroed (so a new field is still covered).
func (w *c29World) tamperComplex(x *block.Block, f reflect.Value, field string, kind int, arg int64, idx int) bool {
	before := jsonOf(f.Interface())
	switch v := f.Interface().(type) {
	case []*block.VerificationTicket:
		switch {
		case len(v) == 0 || kind == mutOther:
			m := w.miners[idx%len(w.miners)]
			sig, _ := m.ss.Sign(x.PrevHash)
			v = append(v, &block.VerificationTicket{VerifierID: m.node.GetKey(), Signature: sig})
		case kind == mutZero:
			v = v[:len(v)-1]
		case kind == mutInc:
			v[idx%len(v)].Signature, _ = flipHexBit(v[idx%len(v)].Signature, int(arg))
		default:
			v[idx%len(v)].VerifierID = w.clients[idx%len(w.clients)].id
		}
		f.Set(reflect.ValueOf(v))
	case *node.Pool:
		if v == nil {
			return false
		}
		keys := v.Keys()
		sort.Strings(keys)
		switch {
		case kind == mutZero && len(keys) > 1:
			delete(v.NodesMap, keys[idx%len(keys)])
		case kind == mutOther || len(keys) == 0:
			extra := newSimMiner(w.scheme, w.keys.Child(fmt.Sprintf("extra-%d", arg)), 500+idx)
			extra.node.Type = v.Type
			v.NodesMap[extra.node.GetKey()] = extra.node
		case kind == mutInc:
			// same member id, somebody else's public key (the id no longer is the hash of the key)
			n := v.NodesMap[keys[idx%len(keys)]]
			n.PublicKey = w.clients[idx%len(w.clients)].pk
		default:
			n := v.NodesMap[keys[idx%len(keys)]]
			n.N2NHost, n.Host, n.Port = "evil.example", "evil.example", n.Port+1
		}
	case *block.Mpks:
		if v == nil {
			return false
		}
		var keys []string
		for k := range v.Mpks {
			keys = append(keys, k)
		}
		sort.Strings(keys)
		if len(keys) == 0 {
			return false
		}
		k := keys[idx%len(keys)]
		switch {
		case kind == mutZero && len(keys) > 1:
			delete(v.Mpks, k)
		case kind == mutOther:
			v.Mpks[k].Mpk = append(v.Mpks[k].Mpk, v.Mpks[k].Mpk[0])
		default:
			// replace one public coefficient by another party's
			o := keys[(idx+1)%len(keys)]
			src := v.Mpks[o].Mpk
			if o == k {
				src = []string{encryption.Hash("not a key")}
			}
			v.Mpks[k].Mpk[int(arg)%len(v.Mpks[k].Mpk)] = src[0]
		}
	case *block.GroupSharesOrSigns:
		if v == nil {
			return false
		}
		var keys []string
		for k := range v.Shares {
			keys = append(keys, k)
		}
		sort.Strings(keys)
		if len(keys) == 0 {
			return false
		}
		k := keys[idx%len(keys)]
		if kind == mutZero && len(keys) > 1 {
			delete(v.Shares, k)
			break
		}
		var sk []string
		for s := range v.Shares[k].ShareOrSigns {
			sk = append(sk, s)
		}
		sort.Strings(sk)
		if len(sk) == 0 {
			v.Shares[k].ID = encryption.Hash("other")
			break
		}
		e := v.Shares[k].ShareOrSigns[sk[int(arg)%len(sk)]]
		if e.Share != "" {
			e.Share = alterChar(e.Share, int(arg))
		} else {
			e.Sign, _ = flipHexBit(e.Sign, int(arg))
		}
	case []*transaction.Transaction:
		return false // handled by the Txns.* operations
	default:
		if !f.CanSet() {
			return false
		}
		f.Set(reflect.Zero(f.Type()))
	}
	return before != jsonOf(f.Interface())
}

// forgeBlock: crafted multi-field forgeries that must be rejected whatever the hash covers.
func (w *c29World) forgeBlock(x *block.Block, kind string, a int) bool {
	switch kind {
	case "resign-other-miner":
		// another registered miner re-signs the generator's block but leaves MinerID alone
		o := w.miners[(a+1)%len(w.miners)]
		if o.node.GetKey() == x.MinerID {
			return false
		}
		x.Signature, _ = o.ss.Sign(x.Hash)
	case "foreign-signature":
		// a valid signature of the generator, over a different block hash
		for _, m := range w.miners {
			if m.node.GetKey() == x.MinerID {
				x.Signature, _ = m.ss.Sign(x.PrevHash)
				return true
			}
		}
		return false
	case "rehash-magic-block":
		// a relay changes the magic block consistently (content + its hash) but cannot re-sign the block
		if x.MagicBlock == nil {
			return false
		}
		x.MagicBlock.MagicBlockNumber++
		x.MagicBlock.Hash = x.MagicBlock.GetHash()
	default:
		return false
	}
	return true
}
