// Package grocksdb is the simulated disk of the verification framework: a
// pure-Go, in-memory replacement for github.com/linxGnu/grocksdb that
// implements exactly the API surface 0chain uses.  Durability, atomicity and
// error behaviour are owned by the simulator through the Sim* functions.
//
// Model
//   - a Disk is identified by the path passed to Open*; it survives Close and
//     "process crash" (SimCrash) and is re-attached by the next Open* of the
//     same path;
//   - every write (Put/Delete/Write(batch)/Commit) is one atomic log entry;
//   - Flush makes every entry so far power-loss durable;
//   - process-crash semantics: entries completed before the crash survive;
//   - power-loss semantics (SimPowerLoss): any suffix of the un-flushed
//     entries may be lost;
//   - SimSetFault installs a callback consulted before every operation; it
//     can return an error (failed write / commit, missing read) or trigger a
//     crash, after which every operation on that disk fails until reopened.
package grocksdb

import (
	"bytes"
	"errors"
	"sort"
	"sync"
)

// ErrCrashed is returned by every operation on a disk after a simulated crash.
var ErrCrashed = errors.New("simdisk: process crashed")

// ErrInjected is the default injected I/O error.
var ErrInjected = errors.New("simdisk: injected I/O error")

type wop struct {
	cf  string
	key string
	val []byte // nil = delete
	mrg bool   // merge operand
}

type entry struct {
	ops []wop
}

// Disk is the durable part of a simulated database.
type Disk struct {
	mu       sync.Mutex
	path     string
	cfs      map[string]map[string][]byte // applied state (all completed entries)
	log      []entry                      // entries since last flush (for power loss)
	base     map[string]map[string][]byte // state at last flush
	crashed  bool
	opCount  uint64
	writes   uint64
	merger   MergeOperator
	fault    func(d *Disk, op string, n uint64) error
	crashAt  uint64 // crash before write #crashAt (1-based) when >0
	openCnt  int
	Counters map[string]uint64
}

var (
	disksMu sync.Mutex
	disks   = map[string]*Disk{}
)

func getDisk(path string) *Disk {
	disksMu.Lock()
	defer disksMu.Unlock()
	d, ok := disks[path]
	if !ok {
		d = &Disk{path: path, cfs: map[string]map[string][]byte{}, base: map[string]map[string][]byte{}, Counters: map[string]uint64{}}
		disks[path] = d
	}
	return d
}

// SimDisk returns the disk for a path (creating it when absent).
func SimDisk(path string) *Disk { return getDisk(path) }

// SimReset forgets all disks (start of a run).
func SimReset() {
	disksMu.Lock()
	defer disksMu.Unlock()
	disks = map[string]*Disk{}
}

// SimRemove forgets one disk.
func SimRemove(path string) {
	disksMu.Lock()
	defer disksMu.Unlock()
	delete(disks, path)
}

func cloneState(s map[string]map[string][]byte) map[string]map[string][]byte {
	out := make(map[string]map[string][]byte, len(s))
	for cf, m := range s {
		mm := make(map[string][]byte, len(m))
		for k, v := range m {
			mm[k] = v // values are never mutated in place
		}
		out[cf] = mm
	}
	return out
}

// SetFault installs the fault callback (nil removes it). The callback is
// called with the operation kind ("get","put","delete","write","commit",
// "flush","iter") and the 1-based operation index on this disk.
func (d *Disk) SetFault(f func(d *Disk, op string, n uint64) error) {
	d.mu.Lock()
	d.fault = f
	d.mu.Unlock()
}

// CrashAtWrite arms a process crash immediately before the n-th write entry
// from now (1 = the next one). 0 disarms.
func (d *Disk) CrashAtWrite(n uint64) {
	d.mu.Lock()
	if n == 0 {
		d.crashAt = 0
	} else {
		d.crashAt = d.writes + n
	}
	d.mu.Unlock()
}

// Crash marks the disk crashed: all later operations fail until Reopen.
func (d *Disk) Crash() {
	d.mu.Lock()
	d.crashed = true
	d.mu.Unlock()
}

// Crashed reports whether the disk is in crashed state.
func (d *Disk) Crashed() bool {
	d.mu.Lock()
	defer d.mu.Unlock()
	return d.crashed
}

// Recover clears the crashed flag, keeping every completed entry (process
// crash semantics).
func (d *Disk) Recover() {
	d.mu.Lock()
	d.crashed = false
	d.crashAt = 0
	d.fault = nil
	d.mu.Unlock()
}

// PowerLoss drops all but the first keep un-flushed entries, then recovers.
func (d *Disk) PowerLoss(keep int) {
	d.mu.Lock()
	defer d.mu.Unlock()
	if keep > len(d.log) {
		keep = len(d.log)
	}
	st := cloneState(d.base)
	for _, e := range d.log[:keep] {
		applyEntry(st, e, d.merger)
	}
	d.cfs = st
	d.log = d.log[:keep]
	d.crashed = false
	d.crashAt = 0
	d.fault = nil
}

// Unflushed returns the number of entries not yet power-loss durable.
func (d *Disk) Unflushed() int {
	d.mu.Lock()
	defer d.mu.Unlock()
	return len(d.log)
}

// Writes returns the number of write entries applied so far.
func (d *Disk) Writes() uint64 {
	d.mu.Lock()
	defer d.mu.Unlock()
	return d.writes
}

// Ops returns the number of operations seen so far.
func (d *Disk) Ops() uint64 {
	d.mu.Lock()
	defer d.mu.Unlock()
	return d.opCount
}

// Snapshot returns a deep copy of a column family (for oracles).
func (d *Disk) Snapshot(cf string) map[string][]byte {
	d.mu.Lock()
	defer d.mu.Unlock()
	out := make(map[string][]byte, len(d.cfs[cf]))
	for k, v := range d.cfs[cf] {
		out[k] = append([]byte(nil), v...)
	}
	return out
}

// Len returns the number of keys in a column family.
func (d *Disk) Len(cf string) int {
	d.mu.Lock()
	defer d.mu.Unlock()
	return len(d.cfs[cf])
}

// Digest returns an order-independent content hash of the disk (FNV over
// sorted keys), used to assert "disk untouched".
func (d *Disk) Digest() uint64 {
	d.mu.Lock()
	defer d.mu.Unlock()
	var h uint64 = 1469598103934665603
	mix := func(b []byte) {
		for _, c := range b {
			h ^= uint64(c)
			h *= 1099511628211
		}
		h ^= 0xff
		h *= 1099511628211
	}
	cfn := make([]string, 0, len(d.cfs))
	for cf := range d.cfs {
		cfn = append(cfn, cf)
	}
	sort.Strings(cfn)
	for _, cf := range cfn {
		mix([]byte(cf))
		ks := make([]string, 0, len(d.cfs[cf]))
		for k := range d.cfs[cf] {
			ks = append(ks, k)
		}
		sort.Strings(ks)
		for _, k := range ks {
			mix([]byte(k))
			mix(d.cfs[cf][k])
		}
	}
	return h
}

// DropKey removes a key directly (simulates a lost node / corruption).
func (d *Disk) DropKey(cf, key string) bool {
	d.mu.Lock()
	defer d.mu.Unlock()
	if _, ok := d.cfs[cf][key]; ok {
		delete(d.cfs[cf], key)
		return true
	}
	return false
}

func applyEntry(st map[string]map[string][]byte, e entry, mo MergeOperator) {
	for _, op := range e.ops {
		m := st[op.cf]
		if m == nil {
			m = map[string][]byte{}
			st[op.cf] = m
		}
		switch {
		case op.mrg:
			if mo != nil {
				nv, ok := mo.FullMerge([]byte(op.key), m[op.key], [][]byte{op.val})
				if ok {
					m[op.key] = nv
				}
			} else {
				m[op.key] = op.val
			}
		case op.val == nil:
			delete(m, op.key)
		default:
			m[op.key] = op.val
		}
	}
}

// pre is called with d.mu held before each operation.
func (d *Disk) pre(op string, isWrite bool) error {
	if d.crashed {
		return ErrCrashed
	}
	d.opCount++
	d.Counters[op]++
	if isWrite {
		if d.crashAt != 0 && d.writes+1 >= d.crashAt {
			d.crashed = true
			d.Counters["crash"]++
			return ErrCrashed
		}
	}
	if d.fault != nil {
		f := d.fault
		n := d.opCount
		d.mu.Unlock()
		err := f(d, op, n)
		d.mu.Lock()
		if err != nil {
			d.Counters["fault:"+op]++
			return err
		}
		if d.crashed {
			return ErrCrashed
		}
	}
	return nil
}

func (d *Disk) write(op string, e entry) error {
	d.mu.Lock()
	defer d.mu.Unlock()
	if err := d.pre(op, true); err != nil {
		return err
	}
	applyEntry(d.cfs, e, d.merger)
	d.log = append(d.log, e)
	d.writes++
	return nil
}

func (d *Disk) get(cf string, key []byte) ([]byte, error) {
	d.mu.Lock()
	defer d.mu.Unlock()
	if err := d.pre("get", false); err != nil {
		return nil, err
	}
	v, ok := d.cfs[cf][string(key)]
	if !ok {
		return nil, nil
	}
	return append([]byte(nil), v...), nil
}

func (d *Disk) flush() error {
	d.mu.Lock()
	defer d.mu.Unlock()
	if err := d.pre("flush", false); err != nil {
		return err
	}
	d.base = cloneState(d.cfs)
	d.log = nil
	return nil
}

type kv struct {
	k string
	v []byte
}

func (d *Disk) sorted(cf string) []kv {
	d.mu.Lock()
	defer d.mu.Unlock()
	if d.crashed {
		return nil
	}
	d.opCount++
	d.Counters["iter"]++
	m := d.cfs[cf]
	out := make([]kv, 0, len(m))
	for k, v := range m {
		out = append(out, kv{k, v})
	}
	sort.Slice(out, func(i, j int) bool { return out[i].k < out[j].k })
	return out
}

func mergeSorted(base []kv, ws map[string]*wop) []kv {
	if len(ws) == 0 {
		return base
	}
	m := make(map[string][]byte, len(base)+len(ws))
	for _, e := range base {
		m[e.k] = e.v
	}
	for k, op := range ws {
		if op.val == nil {
			delete(m, k)
		} else {
			m[k] = op.val
		}
	}
	out := make([]kv, 0, len(m))
	for k, v := range m {
		out = append(out, kv{k, v})
	}
	sort.Slice(out, func(i, j int) bool { return out[i].k < out[j].k })
	return out
}

var _ = bytes.Equal
