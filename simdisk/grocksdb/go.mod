module github.com/linxGnu/grocksdb

go 1.21
