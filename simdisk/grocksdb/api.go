package grocksdb

import (
	"sort"
)

// ---- options (semantically inert) -------------------------------------------------------------

type CompressionType uint

const (
	NoCompression  = CompressionType(0)
	LZ4Compression = CompressionType(4)
)

type Options struct{ merger MergeOperator }
type BlockBasedTableOptions struct{}
type Cache struct{}
type SliceTransform struct{}
type ReadOptions struct{}
type WriteOptions struct{}
type FlushOptions struct{}
type TransactionOptions struct{}
type TransactionDBOptions struct{}

func NewDefaultOptions() *Options                               { return &Options{} }
func NewDefaultBlockBasedTableOptions() *BlockBasedTableOptions { return &BlockBasedTableOptions{} }
func NewLRUCache(uint64) *Cache                                 { return &Cache{} }
func NewFixedPrefixTransform(int) *SliceTransform               { return &SliceTransform{} }
func NewDefaultReadOptions() *ReadOptions                       { return &ReadOptions{} }
func NewDefaultWriteOptions() *WriteOptions                     { return &WriteOptions{} }
func NewDefaultFlushOptions() *FlushOptions                     { return &FlushOptions{} }
func NewDefaultTransactionOptions() *TransactionOptions         { return &TransactionOptions{} }
func NewDefaultTransactionDBOptions() *TransactionDBOptions     { return &TransactionDBOptions{} }

func (o *BlockBasedTableOptions) SetBlockCache(*Cache)               {}
func (o *Options) EnableStatistics()                                 {}
func (o *Options) IncreaseParallelism(int)                           {}
func (o *Options) OptimizeForPointLookup(uint64)                     {}
func (o *Options) OptimizeUniversalStyleCompaction(uint64)           {}
func (o *Options) SetAllowMmapReads(bool)                            {}
func (o *Options) SetBlockBasedTableFactory(*BlockBasedTableOptions) {}
func (o *Options) SetCompression(CompressionType)                    {}
func (o *Options) SetCreateIfMissing(bool)                           {}
func (o *Options) SetCreateIfMissingColumnFamilies(bool)             {}
func (o *Options) SetDbLogDir(string)                                {}
func (o *Options) SetDeleteObsoleteFilesPeriodMicros(uint64)         {}
func (o *Options) SetKeepLogFileNum(uint)                            {}
func (o *Options) SetMaxBackgroundJobs(int)                          {}
func (o *Options) SetMaxWriteBufferNumber(int)                       {}
func (o *Options) SetMergeOperator(m MergeOperator)                  { o.merger = m }
func (o *Options) SetMinWriteBufferNumberToMerge(int)                {}
func (o *Options) SetPlainTableFactory(uint32, int, float64, uint)   {}
func (o *Options) SetPrefixExtractor(*SliceTransform)                {}
func (o *Options) SetWriteBufferSize(uint64)                         {}
func (o *ReadOptions) Destroy()                                      {}
func (o *ReadOptions) SetFillCache(bool)                             {}
func (o *WriteOptions) SetSync(bool)                                 {}
func (o *WriteOptions) Destroy()                                     {}
func (o *FlushOptions) Destroy()                                     {}
func (o *TransactionOptions) Destroy()                               {}

// MergeOperator mirrors grocksdb.MergeOperator.
type MergeOperator interface {
	FullMerge(key, existingValue []byte, operands [][]byte) ([]byte, bool)
	Name() string
}

// ---- Slice --------------------------------------------------------------------------------------

type Slice struct {
	data   []byte
	exists bool
}

func (s *Slice) Data() []byte {
	if s == nil {
		return nil
	}
	return s.data
}
func (s *Slice) Size() int {
	if s == nil {
		return 0
	}
	return len(s.data)
}
func (s *Slice) Exists() bool { return s != nil && s.exists }
func (s *Slice) Free()        {}

func mkSlice(v []byte) *Slice {
	if v == nil {
		return &Slice{}
	}
	return &Slice{data: v, exists: true}
}

// ---- DB with column families -------------------------------------------------------------------

type ColumnFamilyHandle struct{ name string }

func (h *ColumnFamilyHandle) Destroy() {}

type DB struct {
	d *Disk
}

const defaultCF = "default"

func OpenDbColumnFamilies(opts *Options, name string, cfNames []string, cfOpts []*Options) (*DB, []*ColumnFamilyHandle, error) {
	d := getDisk(name)
	d.mu.Lock()
	if d.crashed {
		// a reopen is a restart: completed entries survive.
		d.crashed = false
		d.crashAt = 0
	}
	d.openCnt++
	for _, cf := range cfNames {
		if d.cfs[cf] == nil {
			d.cfs[cf] = map[string][]byte{}
		}
	}
	d.mu.Unlock()
	hs := make([]*ColumnFamilyHandle, len(cfNames))
	for i, cf := range cfNames {
		hs[i] = &ColumnFamilyHandle{name: cf}
	}
	return &DB{d: d}, hs, nil
}

func (db *DB) Disk() *Disk { return db.d }

func (db *DB) GetPropertyCF(prop string, cf *ColumnFamilyHandle) string {
	return itoa(db.d.Len(cf.name))
}

func itoa(n int) string {
	if n == 0 {
		return "0"
	}
	var b [20]byte
	i := len(b)
	for n > 0 {
		i--
		b[i] = byte('0' + n%10)
		n /= 10
	}
	return string(b[i:])
}

func (db *DB) Get(ro *ReadOptions, key []byte) (*Slice, error) {
	v, err := db.d.get(defaultCF, key)
	if err != nil {
		return nil, err
	}
	return mkSlice(v), nil
}

func (db *DB) Put(wo *WriteOptions, key, value []byte) error {
	return db.d.write("put", entry{ops: []wop{{cf: defaultCF, key: string(key), val: cp(value)}}})
}

func (db *DB) PutCF(wo *WriteOptions, cf *ColumnFamilyHandle, key, value []byte) error {
	return db.d.write("put", entry{ops: []wop{{cf: cf.name, key: string(key), val: cp(value)}}})
}

func (db *DB) Delete(wo *WriteOptions, key []byte) error {
	return db.d.write("delete", entry{ops: []wop{{cf: defaultCF, key: string(key)}}})
}

func (db *DB) Write(wo *WriteOptions, wb *WriteBatch) error {
	ops := make([]wop, len(wb.ops))
	copy(ops, wb.ops)
	return db.d.write("write", entry{ops: ops})
}

func (db *DB) Flush(fo *FlushOptions) error { return db.d.flush() }

func (db *DB) Close() {}

func (db *DB) NewIterator(ro *ReadOptions) *Iterator {
	return &Iterator{items: db.d.sorted(defaultCF), pos: -1}
}

func (db *DB) NewIteratorCF(ro *ReadOptions, cf *ColumnFamilyHandle) *Iterator {
	return &Iterator{items: db.d.sorted(cf.name), pos: -1}
}

func cp(b []byte) []byte {
	out := make([]byte, len(b))
	copy(out, b)
	return out
}

// ---- WriteBatch ---------------------------------------------------------------------------------

type WriteBatch struct{ ops []wop }

func NewWriteBatch() *WriteBatch { return &WriteBatch{} }
func (wb *WriteBatch) Put(key, value []byte) {
	wb.ops = append(wb.ops, wop{cf: defaultCF, key: string(key), val: cp(value)})
}
func (wb *WriteBatch) PutCF(cf *ColumnFamilyHandle, key, value []byte) {
	wb.ops = append(wb.ops, wop{cf: cf.name, key: string(key), val: cp(value)})
}
func (wb *WriteBatch) Delete(key []byte) {
	wb.ops = append(wb.ops, wop{cf: defaultCF, key: string(key)})
}
func (wb *WriteBatch) DeleteCF(cf *ColumnFamilyHandle, key []byte) {
	wb.ops = append(wb.ops, wop{cf: cf.name, key: string(key)})
}
func (wb *WriteBatch) Count() int { return len(wb.ops) }
func (wb *WriteBatch) Clear()     { wb.ops = nil }
func (wb *WriteBatch) Destroy()   {}

// ---- TransactionDB ------------------------------------------------------------------------------

type TransactionDB struct{ d *Disk }

func OpenTransactionDb(opts *Options, tdbo *TransactionDBOptions, name string) (*TransactionDB, error) {
	d := getDisk(name)
	d.mu.Lock()
	if d.crashed {
		d.crashed = false
		d.crashAt = 0
	}
	d.openCnt++
	if d.cfs[defaultCF] == nil {
		d.cfs[defaultCF] = map[string][]byte{}
	}
	if opts != nil && opts.merger != nil {
		d.merger = opts.merger
	}
	d.mu.Unlock()
	return &TransactionDB{d: d}, nil
}

func (db *TransactionDB) Disk() *Disk { return db.d }
func (db *TransactionDB) Close()      {}

func (db *TransactionDB) Get(ro *ReadOptions, key []byte) (*Slice, error) {
	v, err := db.d.get(defaultCF, key)
	if err != nil {
		return nil, err
	}
	return mkSlice(v), nil
}

func (db *TransactionDB) Put(wo *WriteOptions, key, value []byte) error {
	return db.d.write("put", entry{ops: []wop{{cf: defaultCF, key: string(key), val: cp(value)}}})
}

func (db *TransactionDB) Delete(wo *WriteOptions, key []byte) error {
	return db.d.write("delete", entry{ops: []wop{{cf: defaultCF, key: string(key)}}})
}

func (db *TransactionDB) NewIterator(ro *ReadOptions) *Iterator {
	return &Iterator{items: db.d.sorted(defaultCF), pos: -1}
}

func (db *TransactionDB) TransactionBegin(wo *WriteOptions, to *TransactionOptions, old *Transaction) *Transaction {
	return &Transaction{d: db.d, ws: map[string]*wop{}}
}

type Transaction struct {
	d     *Disk
	ws    map[string]*wop // latest non-merge op per key
	order []wop           // full op order
	done  bool
}

func (t *Transaction) Get(ro *ReadOptions, key []byte) (*Slice, error) {
	// replay own writes over the committed value
	base, err := t.d.get(defaultCF, key)
	if err != nil {
		return nil, err
	}
	v := base
	have := base != nil
	for _, op := range t.order {
		if op.key != string(key) {
			continue
		}
		switch {
		case op.mrg:
			if t.d.merger != nil {
				var ex []byte
				if have {
					ex = v
				}
				nv, ok := t.d.merger.FullMerge(key, ex, [][]byte{op.val})
				if ok {
					v, have = nv, true
				}
			} else {
				v, have = op.val, true
			}
		case op.val == nil:
			v, have = nil, false
		default:
			v, have = op.val, true
		}
	}
	if !have {
		return &Slice{}, nil
	}
	return mkSlice(cp(v)), nil
}

func (t *Transaction) Put(key, value []byte) error {
	if t.d.Crashed() {
		return ErrCrashed
	}
	op := wop{cf: defaultCF, key: string(key), val: cp(value)}
	t.order = append(t.order, op)
	t.ws[op.key] = &op
	return nil
}

func (t *Transaction) Delete(key []byte) error {
	if t.d.Crashed() {
		return ErrCrashed
	}
	op := wop{cf: defaultCF, key: string(key)}
	t.order = append(t.order, op)
	t.ws[op.key] = &op
	return nil
}

func (t *Transaction) Merge(key, value []byte) error {
	if t.d.Crashed() {
		return ErrCrashed
	}
	t.order = append(t.order, wop{cf: defaultCF, key: string(key), val: cp(value), mrg: true})
	return nil
}

func (t *Transaction) Commit() error {
	if t.done {
		return nil
	}
	if len(t.order) == 0 {
		t.done = true
		if t.d.Crashed() {
			return ErrCrashed
		}
		return nil
	}
	ops := make([]wop, len(t.order))
	copy(ops, t.order)
	err := t.d.write("commit", entry{ops: ops})
	if err == nil {
		t.done = true
		t.order = nil
		t.ws = map[string]*wop{}
	}
	return err
}

func (t *Transaction) Rollback() error {
	t.order = nil
	t.ws = map[string]*wop{}
	return nil
}

func (t *Transaction) Destroy() {}

func (t *Transaction) NewIterator(ro *ReadOptions) *Iterator {
	base := t.d.sorted(defaultCF)
	// resolve merges through Get for keys touched by a merge
	ws := map[string]*wop{}
	for k, v := range t.ws {
		ws[k] = v
	}
	for _, op := range t.order {
		if op.mrg {
			s, err := t.Get(nil, []byte(op.key))
			if err == nil && s.Exists() {
				ws[op.key] = &wop{key: op.key, val: s.Data()}
			}
		}
	}
	return &Iterator{items: mergeSorted(base, ws), pos: -1}
}

// ---- Iterator -----------------------------------------------------------------------------------

type Iterator struct {
	items []kv
	pos   int
}

func (it *Iterator) Valid() bool  { return it.pos >= 0 && it.pos < len(it.items) }
func (it *Iterator) SeekToFirst() { it.pos = 0 }
func (it *Iterator) SeekToLast()  { it.pos = len(it.items) - 1 }
func (it *Iterator) Next()        { it.pos++ }
func (it *Iterator) Prev()        { it.pos-- }
func (it *Iterator) Seek(key []byte) {
	k := string(key)
	it.pos = sort.Search(len(it.items), func(i int) bool { return it.items[i].k >= k })
}
func (it *Iterator) SeekForPrev(key []byte) {
	k := string(key)
	it.pos = sort.Search(len(it.items), func(i int) bool { return it.items[i].k > k }) - 1
}
func (it *Iterator) Key() *Slice {
	if !it.Valid() {
		return &Slice{}
	}
	return mkSlice([]byte(it.items[it.pos].k))
}
func (it *Iterator) Value() *Slice {
	if !it.Valid() {
		return &Slice{}
	}
	return mkSlice(cp(it.items[it.pos].v))
}
func (it *Iterator) Err() error { return nil }
func (it *Iterator) Close()     {}
